#!/venv/bin/python
"""Regenerate seeded/README.md from seeded/*/meta.json (hand-run)."""
import json
import os

D = "/verif/seeded"
rows = []
for sid in sorted(os.listdir(D)):
    mp = os.path.join(D, sid, "meta.json")
    if not os.path.exists(mp):
        continue
    m = json.load(open(mp))
    ver = m.get("verified", {})
    det = []
    for c, v in ver.items():
        if isinstance(v, dict) and "exit" in v:
            det.append(f"{c}: exit {v['exit']}" + (f" ({', '.join(v['clauses'][:3])})" if v.get("clauses") else ""))
    rows.append((sid, m["breaks_property"], m["summary"], m["needs_to_manifest"], "; ".join(det) or "not yet verified", m.get("how_detected", ""), m["confirmed"].get("existing_suite_with_change", "")))

with open(os.path.join(D, "README.md"), "w") as f:
    f.write(
        "# Seeded property-breaking changes\n\n"
        "Each directory holds `patch.diff` (against /repo HEAD), `demo.py` (exit 0 on the unchanged code, exit 1 with the change),\n"
        "`author_notes.md` (written by the sub-agent that produced the change; it saw only the property text) and `meta.json`.\n"
        "None of these changes is ever committed to /repo. To try one: `git -C /repo apply seeded/<id>/patch.diff`, run the checks,\n"
        "`git -C /repo checkout -- .` (or use `tools/seeded_verify.py <id>`, which works in a scratch worktree).\n\n"
        "`verified` = what the quick checks reported when run against the change (exit 1 = VIOLATION reported, as required;\n"
        "every one of these checks exits 0 on the unchanged tree).\n\n"
    )
    for sid, prop, summ, needs, det, how, suite in rows:
        f.write(f"## {sid}  (breaks {prop})\n\n")
        f.write(f"*Change.* {summ}\n\n*Needs, to manifest.* {needs}\n\n*Existing test suite with the change.* {suite}\n\n")
        f.write(f"*Checks run against it.* {det}\n\n*How it is caught / what had to be strengthened.* {how}\n\n")
print("wrote", len(rows), "entries")
