#!/bin/sh
# usage: tools/trychecks.sh <worktree> Cxx [Cyy ...]   -- run quick checks against a scratch worktree (experiments only)
wt="$1"; shift
cd "$(dirname "$0")/.." || exit 2
for c in "$@"; do
  out=$(VF_REPO_SRC="$wt/src" ./check "$c" quick 2>&1); rc=$?
  echo "== $c rc=$rc $(echo "$out" | grep -c '^VIOLATION') violation lines; $(echo "$out" | grep -E '^C[0-9]+ tier' | cut -c1-120)"
  echo "$out" | grep -A2 '^VIOLATION' | head -9 | cut -c1-260
done
