#!/venv/bin/python
"""Hand-run tool: for each seeded change, apply it in a scratch worktree of /repo (never in /repo itself),
run the listed quick checks against that worktree (VF_REPO_SRC) and record what they report in meta.json.

    tools/seeded_verify.py [Sxx-...] [--checks C01,C02]
"""
import json
import os
import re
import subprocess
import sys

VERIF = "/verif"
WT = "/tmp/wt/seedverify"


def sh(cmd, **kw):
    return subprocess.run(cmd, shell=True, capture_output=True, text=True, **kw)


def main():
    args = [a for a in sys.argv[1:] if not a.startswith("--")]
    extra = None
    for a in sys.argv[1:]:
        if a.startswith("--checks="):
            extra = a.split("=", 1)[1].split(",")
    ids = args or sorted(os.listdir(os.path.join(VERIF, "seeded")))
    for sid in ids:
        d = os.path.join(VERIF, "seeded", sid)
        mp = os.path.join(d, "meta.json")
        if not os.path.exists(mp):
            continue
        meta = json.load(open(mp))
        sh(f"git -C /repo worktree remove --force {WT}")
        r = sh(f"git -C /repo worktree add -q --detach {WT} HEAD && git -C {WT} apply {d}/patch.diff")
        if r.returncode != 0:
            print(sid, "PATCH DOES NOT APPLY", r.stderr[-300:])
            meta.setdefault("verified", {})["applies"] = False
            json.dump(meta, open(mp, "w"), indent=1)
            continue
        checks = extra or meta.get("detected_by") or [meta["breaks_property"]]
        ver = meta.setdefault("verified", {})
        ver["applies"] = True
        ver["repo_head"] = sh("git -C /repo rev-parse --short HEAD").stdout.strip()
        for c in checks:
            env = dict(os.environ, VF_REPO_SRC=WT + "/src")
            p = subprocess.run(["./check", c, "quick"], cwd=VERIF, env=env, capture_output=True, text=True)
            clauses = sorted(set(re.findall(r"clause=(\S+)", p.stdout)))
            tier = re.findall(r"^C\d+ tier.*$", p.stdout, re.M)
            ver[c] = {"exit": p.returncode, "violation_lines": p.stdout.count("\nVIOLATION") + p.stdout.startswith("VIOLATION"), "clauses": clauses[:6], "summary": tier[-1][:160] if tier else ""}
            print(sid, c, "exit", p.returncode, clauses[:4])
        json.dump(meta, open(mp, "w"), indent=1)
    sh(f"git -C /repo worktree remove --force {WT}")


if __name__ == "__main__":
    main()
