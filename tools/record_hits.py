#!/venv/bin/python
"""Hand-run tool (never run by a check): run `./check Cxx <tier>` on the UNCHANGED tree and record, for every
callsite-kind known finding, how many failing cases matched it (`max_hits[tier]`). A later run that matches MORE
cases than recorded reports a VIOLATION (new failures hiding behind a recorded signature).

    tools/record_hits.py quick C01 C03 ...      (no ids = every property that has callsite findings)
"""
import json
import subprocess
import sys

KF = "/verif/known_findings.jsonl"


def main():
    tier = sys.argv[1]
    ids = sys.argv[2:]
    lines = open(KF).read().splitlines()
    ents = [json.loads(l) if l.startswith("{") else None for l in lines]
    if not ids:
        ids = sorted({e["property"] for e in ents if e and e["match"].get("kind") == "callsite" and e.get("status") == "open"})
    for pid in ids:
        p = subprocess.run(["./check", pid, tier], cwd="/verif", capture_output=True, text=True)
        hl = [l for l in p.stdout.splitlines() if l.startswith("HITS ")]
        if p.returncode != 0 and "VIOLATION" in p.stdout and "carry the signature" not in p.stdout:
            print(pid, "NOT RECORDED: check reports violations", p.returncode)
            continue
        if not hl:
            print(pid, "no HITS line", p.returncode)
            continue
        hits = json.loads(hl[-1][5:])["hits"]
        for i, e in enumerate(ents):
            if not e or e["property"] != pid or e.get("status") != "open" or e["match"].get("kind") != "callsite":
                continue
            key = json.dumps(e["match"], sort_keys=True)
            n = hits.get(key, 0)
            e.setdefault("max_hits", {})[tier] = n
            lines[i] = json.dumps(e, ensure_ascii=True)
        print(pid, tier, "recorded", {k[:60]: v for k, v in hits.items() if k.startswith("{")})
        open(KF, "w").write("\n".join(lines) + "\n")


if __name__ == "__main__":
    main()
