"""In-process invocation of the real sqlfluff CLI (click CliRunner), with the per-invocation
logging handlers it installs removed afterwards so that thousands of invocations do not
accumulate state that the harness itself created."""

from __future__ import annotations

import logging
import os


def run(args, input=None, cwd=None):
    """-> (exit_code, stdout, stderr, exception_repr|None)"""
    from click.testing import CliRunner

    from sqlfluff.cli.commands import cli

    old = os.getcwd()
    lg = logging.getLogger("sqlfluff")
    before = list(lg.handlers)
    sub_before = {n: list(logging.getLogger(n).handlers) for n in list(logging.root.manager.loggerDict) if n.startswith("sqlfluff")}
    disabled = logging.root.manager.disable
    try:
        if cwd:
            os.chdir(cwd)
        try:
            runner = CliRunner(mix_stderr=False)
        except TypeError:
            runner = CliRunner()
        r = runner.invoke(cli, list(args), input=input, catch_exceptions=True)
        exc = None
        if type(r.exception).__name__ == "_Timeout":
            # the runner's per-case alarm fired inside the CLI: a harness timeout, not a CLI exception
            raise r.exception
        if r.exception is not None and not isinstance(r.exception, SystemExit):
            import traceback

            exc = "".join(traceback.format_exception(type(r.exception), r.exception, r.exception.__traceback__))[-2000:]
        try:
            err = r.stderr
        except Exception:
            err = ""
        return r.exit_code, r.stdout, err, exc
    finally:
        os.chdir(old)
        for h in list(lg.handlers):
            if h not in before:
                lg.removeHandler(h)
        for n, hs in sub_before.items():
            l2 = logging.getLogger(n)
            for h in list(l2.handlers):
                if h not in hs:
                    l2.removeHandler(h)
        logging.disable(disabled)


def mkcase_dir(root, name):
    d = os.path.join(root, name)
    os.makedirs(d, exist_ok=True)
    return d
