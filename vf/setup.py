"""MANIFEST.setup_cmd: nothing to build (pure Python, run from source); verify the environment."""
import os
import sys


def main():
    import sqlfluff

    src = os.path.abspath(sqlfluff.__file__)
    ok = src.startswith("/repo/src/")
    print("sqlfluff from", src, "OK" if ok else "NOT /repo/src")
    for d in ("evidence", "replays", ".scratch"):
        os.makedirs(os.path.join(os.path.dirname(os.path.dirname(os.path.abspath(__file__))), d), exist_ok=True)
    import jinja2, pathspec, yaml, regex, click  # noqa: F401,E401

    sys.exit(0 if ok else 2)


if __name__ == "__main__":
    main()
