"""Finite, deterministic corpora (DESIGN.md §2.2). Everything here is enumerated
completely within a stated bound; nothing is sampled."""

from __future__ import annotations

import functools
import glob
import itertools
import os
import re

REPO = "/repo"

# ---------------------------------------------------------------- Σc
SIGMA_C = [
    "a", "A", "1", "_", " ", "\n", "\t", "\r", "'", '"', "`", "-", "/", "*", "(", ")",
    ",", ".", ";", ":", "$", "{", "}", "%", "#", "\\", "é", "中", "\U0001f600",
    "\x00", "\x0b", "\u00a0", "\u2028",
]


def sigma_c(n: int, alphabet=None):
    al = alphabet or SIGMA_C
    for k in range(0, n + 1):
        for tup in itertools.product(al, repeat=k):
            yield "".join(tup)


# ---------------------------------------------------------------- Σt
SIGMA_T18 = ["SELECT", "a", "b", "1", "'x'", "*", ",", "FROM", "t", "WHERE", "=", "AND", "(", ")", ";", "AS", "JOIN", "WITH"]
SIGMA_T24 = SIGMA_T18 + ["CASE", "WHEN", "THEN", "END", "-- c\n", "/* c */"]
SIGMA_T_EXT = SIGMA_T24 + ["'unterminated", '"q']

DIALECT_TOKENS = {
    "tsql": ["[a]", "@v", "GO"],
    "mysql": ["`a`", "#c\n", "@v"],
    "mariadb": ["`a`", "#c\n", "@v"],
    "postgres": ["$$x$$", "::", "$1"],
    "redshift": ["::", "$1", "#t"],
    "bigquery": ["`a.b`", "r'x'", "@v"],
    "snowflake": ["$1", ":v", "->"],
    "sparksql": ["`a`", "<=>", "r'x'"],
    "databricks": ["`a`", "<=>", ":v"],
    "hive": ["`a`", "${v}", "=="],
    "clickhouse": ["`a`", "->", "::"],
    "duckdb": ["::", "$1", "->"],
    "sqlite": ["`a`", "?1", "->>"],
    "oracle": ["@f", ":v", "=>"],
    "exasol": ["[a]", ":=", "/"],
    "teradata": ["SEL", "(FORMAT 'x')", "**"],
    "athena": ["`a`", "->", "?"],
    "trino": ["->", "?", "U&'x'"],
    "db2": ["@v", "#c", "!="],
    "vertica": ["::", ":v", "<=>"],
    "greenplum": ["$$x$$", "::", "$1"],
    "materialize": ["$$x$$", "::", "$1"],
    "starrocks": ["`a`", "#c\n", "@v"],
    "doris": ["`a`", "#c\n", "@v"],
    "impala": ["`a`", "<=>", "${v}"],
    "flink": ["`a`", "=>", "$1"],
    "soql": ["a__c", "@v", "!="],
}


def token_seqs(alphabet, n: int, min_len: int = 0):
    for k in range(min_len, n + 1):
        for tup in itertools.product(alphabet, repeat=k):
            s = ""
            for t in tup:
                s += t if (not s or s.endswith("\n")) else " " + t
            yield s


@functools.lru_cache(None)
def dialects():
    from sqlfluff.core.dialects import dialect_readout

    return sorted(d.label for d in dialect_readout())


# ---------------------------------------------------------------- G: mini grammar
COLS = ["a", "t.a", "a AS x", "a x", "f(a)", "COUNT(*)", "1", "'x'", "a + 1", "CASE WHEN a = 1 THEN a ELSE b END", "*"]
COL2 = [None, "b", "b AS y", "t.b", "SUM(b)"]
SOURCES = ["t", "t AS u", "t u", "t JOIN u ON t.a = u.a", "(SELECT a FROM t) AS s", "t, u"]
WHERES = [None, "a = 1", "a = 1 AND b <> 2", "a IS NULL", "a = NULL", "a IN (1, 2)", "(a = 1)", "NOT a = 1"]
FEATURES = {
    "kind": ["select", "insert", "update", "delete", "create"],
    "distinct": [False, True],
    "col": COLS,
    "col2": COL2,
    "source": SOURCES,
    "where": WHERES,
    "group": [None, "GROUP BY a"],
    "order": [None, "ORDER BY a", "ORDER BY a DESC"],
    "limit": [None, "LIMIT 1"],
    "setop": [None, "UNION", "UNION ALL"],
    "cte": [False, True],
    "semi": [False, True],
    "second": [False, True],
}
DEFAULT = {k: v[0] for k, v in FEATURES.items()}


def render_stmt(f: dict) -> str:
    if f["kind"] == "insert":
        s = "INSERT INTO t (a, b) VALUES (1, 2)"
    elif f["kind"] == "update":
        s = "UPDATE t SET a = 1" + (" WHERE " + f["where"] if f["where"] else "")
    elif f["kind"] == "delete":
        s = "DELETE FROM t" + (" WHERE " + f["where"] if f["where"] else "")
    elif f["kind"] == "create":
        s = "CREATE TABLE t (a INT, b VARCHAR(10))"
    else:
        cols = f["col"] + (", " + f["col2"] if f["col2"] else "")
        core = "SELECT " + ("DISTINCT " if f["distinct"] else "") + cols + " FROM " + f["source"]
        if f["where"]:
            core += " WHERE " + f["where"]
        if f["group"]:
            core += " " + f["group"]
        s = core
        if f["setop"]:
            s += " " + f["setop"] + " SELECT a FROM u"
        if f["order"]:
            s += " " + f["order"]
        if f["limit"]:
            s += " " + f["limit"]
        if f["cte"]:
            s = "WITH c AS (" + core + ") SELECT a FROM c"
    if f["semi"]:
        s += ";"
    if f["second"]:
        s += ("" if f["semi"] else ";") + " SELECT 1"
    return s + "\n"


def G(k: int):
    """All statements with <= k features switched away from the default."""
    out = []
    seen = set()
    names = list(FEATURES)
    for r in range(0, k + 1):
        for combo in itertools.combinations(names, r):
            menus = [FEATURES[n][1:] for n in combo]
            for vals in itertools.product(*menus):
                f = dict(DEFAULT)
                f.update(dict(zip(combo, vals)))
                s = render_stmt(f)
                if s not in seen:
                    seen.add(s)
                    out.append(s)
    return out


# ---------------------------------------------------------------- D: deviations
_TOK = re.compile(r"'[^']*'|--[^\n]*\n|/\*.*?\*/|[A-Za-z_][A-Za-z_0-9]*|\d+|<>|[^\s]", re.S)


def tokenize(s: str):
    """-> (tokens, gaps) with len(gaps) == len(tokens)+1 (leading gap, inter gaps, trailing)."""
    toks, gaps = [], []
    pos = 0
    for m in _TOK.finditer(s):
        gaps.append(s[pos : m.start()])
        toks.append(m.group(0))
        pos = m.end()
    gaps.append(s[pos:])
    return toks, gaps


def join(toks, gaps) -> str:
    out = gaps[0]
    for t, g in zip(toks, gaps[1:]):
        out += t + g
    return out


GAPS = ["", "  ", "\n", "\n    ", "\t", " \n"]
INSERTS = [")", "(", ",", ";", "'", "/*"]
COMMENTS = ["-- c\n", "/* c */"]


def _mixed(w):
    return "".join(c.upper() if i % 2 else c.lower() for i, c in enumerate(w))


def deviate1(s: str, ops: str = "WKXMEL"):
    """All single deviations of s (set of strings, s excluded)."""
    toks, gaps = tokenize(s)
    out = set()
    n = len(toks)
    if "W" in ops:
        for i in range(1, n):
            for g in GAPS:
                if g != gaps[i]:
                    gg = list(gaps)
                    gg[i] = g
                    out.add(join(toks, gg))
    if "K" in ops:
        for i, t in enumerate(toks):
            if t[0].isalpha():
                for v in {t.lower(), t.capitalize(), _mixed(t), t.upper()} - {t}:
                    tt = list(toks)
                    tt[i] = v
                    out.add(join(tt, gaps))
    if "X" in ops:
        for i in range(n):
            out.add(join(toks[:i] + toks[i + 1 :], gaps[:i] + gaps[i + 1 :]))  # delete
            out.add(join(toks[: i + 1] + [toks[i]] + toks[i + 1 :], gaps[: i + 1] + [" "] + gaps[i + 1 :]))  # dup
            if i + 1 < n:
                tt = list(toks)
                tt[i], tt[i + 1] = tt[i + 1], tt[i]
                out.add(join(tt, gaps))
            out.add(join(toks[: i + 1], gaps[: i + 1] + ["\n"]))  # truncate after i
            out.add(join(toks[: i + 1], gaps[: i + 1] + [""]))  # truncate, no newline
        for i in range(n + 1):
            for ins in INSERTS:
                out.add(join(toks[:i] + [ins] + toks[i:], gaps[:i] + [gaps[i] or " ", " "] + gaps[i + 1 :]))
    if "M" in ops:
        for i in range(n + 1):
            for c in COMMENTS:
                out.add(join(toks[:i] + [c] + toks[i:], gaps[: i + 1] + ["" if c.endswith("\n") else " "] + gaps[i + 1 :]))
    if "E" in ops:
        body = s.rstrip("\n")
        for e in ("", "\n", "\n\n", " \n"):
            out.add(body + e)
    if "L" in ops:
        out.add(s.replace("\n", "\r\n"))
    out.discard(s)
    return out


def D(stmts, d: int, ops: str = "WKXMEL"):
    """All strings reachable from stmts by <= d deviations. Sorted simplest-first."""
    level = set(stmts)
    allv = set(level)
    for _ in range(d):
        nxt = set()
        for s in level:
            nxt |= deviate1(s, ops)
        level = nxt - allv
        allv |= nxt
    return sorted(allv, key=lambda s: (len(s), s))


# ---------------------------------------------------------------- F: repository seeds
@functools.lru_cache(None)
def fixtures(max_bytes: int = 400):
    """[(dialect, relpath, text)] for every dialect fixture .sql up to max_bytes."""
    out = []
    base = os.path.join(REPO, "test/fixtures/dialects")
    for d in sorted(os.listdir(base)):
        dd = os.path.join(base, d)
        if not os.path.isdir(dd) or d not in dialects():
            continue
        for p in sorted(glob.glob(os.path.join(dd, "*.sql"))):
            if os.path.getsize(p) <= max_bytes:
                try:
                    txt = open(p, encoding="utf-8").read()
                except UnicodeDecodeError:
                    continue
                out.append((d, os.path.relpath(p, REPO), txt))
    return out


@functools.lru_cache(None)
def yaml_cases():
    """[(rule_code, case_name, kind, sql, configs)] from std_rule_cases/*.yml."""
    import yaml

    out = []
    for p in sorted(glob.glob(os.path.join(REPO, "test/fixtures/rules/std_rule_cases/*.yml"))):
        doc = yaml.safe_load(open(p, encoding="utf-8"))
        rule = doc.get("rule")
        for name, c in doc.items():
            if name == "rule" or not isinstance(c, dict):
                continue
            if c.get("ignored"):
                continue
            for kind in ("pass_str", "fail_str", "fix_str"):
                if kind in c and isinstance(c[kind], str):
                    out.append((rule, name, kind, c[kind], c.get("configs") or {}))
    return out


# ---------------------------------------------------------------- T: Jinja skeletons
T_LITS = ["SELECT a", "  , b", " FROM t", " ", "\n", "select  1", ""]
T_LITS4 = ["SELECT a", " ", "\n", "select  1"]


def t_items(depth: int, lits, rich: bool = False):
    base = list(lits) + ["{{ v }}", "{{ u }}", "{# c #}", "{% set w = 1 %}"]
    if rich:
        base += [
            "{% set w %}x{% endset %}",
            "{% macro m(p) %}{{ p }}{% endmacro %}{{ m(1) }}",
            "{% raw %}{{ r }}{% endraw %}",
        ]
    out = list(base)
    if depth > 0:
        blocks = t_seqs(depth - 1, 2, lits, rich)
        for b in blocks:
            out.append("{% if c %}" + b + "{% endif %}")
            out.append("{% for x in xs %}" + b + "{% endfor %}")
        for b1, b2 in itertools.product(blocks[:12], blocks[:12]):
            out.append("{% if c %}" + b1 + "{% else %}" + b2 + "{% endif %}")
        for b1, b2 in itertools.product(blocks[:6], blocks[:6]):
            out.append("{% if c %}" + b1 + "{% elif d %}" + b2 + "{% endif %}")
    return out


def t_seqs(depth: int, n: int, lits=None, rich: bool = False, max_len: int | None = None):
    lits = T_LITS if lits is None else lits
    its = t_items(depth, lits, rich)
    res = set()
    for k in range(1, n + 1):
        for tup in itertools.product(its, repeat=k):
            s = "".join(tup)
            if max_len is None or len(s) <= max_len:
                res.add(s)
    return sorted(res, key=lambda s: (len(s), s))


def ws_control_variants(t: str, k_max: int = 2):
    """All assignments of '-' to <= k_max tag sides."""
    sides = [(m.start(), "open") for m in re.finditer(r"\{[%{#]", t)] + [
        (m.start(), "close") for m in re.finditer(r"[%}#]\}", t)
    ]
    out = {t}
    for k in range(1, k_max + 1):
        for combo in itertools.combinations(sides, k):
            s = t
            for pos, kind in sorted(combo, reverse=True):
                if kind == "open":
                    s = s[: pos + 2] + "-" + s[pos + 2 :]
                else:
                    s = s[:pos] + "-" + s[pos:]
            out.add(s)
    return out


T_CTX = [dict(c=c, d=True, xs=xs, v=1, s=" ", e="") for c in (True, False) for xs in ([], [1], [1, 2])]

# ---- token-spanning family: word fragments and expressions that render a fragment, a space
# or nothing, with NO separating whitespace, so that one lexed token spans 2..4 template slices
# (also at source offset 0) and literal whitespace abuts templated whitespace.
SPAN_ITEMS = ["a", "b_", " ", ",", "{{ v }}", "{{ s }}", "{{ e }}", "{# c #}"]
SPAN_CTX = dict(v=1, s=" ", e="", c=True, d=True, xs=[1, 2])


def span_templates(n: int = 4):
    out = set()
    for k in range(1, n + 1):
        for tup in itertools.product(SPAN_ITEMS, repeat=k):
            s = "".join(tup)
            if has_markup(s):
                out.add(s)
    return sorted(out, key=lambda s: (len(s), s))


# ---- loop-straddling family: a for-loop body whose LAST fragment starts an expression that is
# continued by the FIRST fragment of the next iteration (a parse node that spans two iterations and
# whose later children have EARLIER source positions).
def loop_templates():
    frags = [" + a", ", b", " AS c", " * 2", " {{ x }}"]
    out = set()
    for k in (2, 3):
        for body in itertools.product(frags, repeat=k):
            for pre in ("SELECT 1", "SELECT a"):
                for suf in ("", " FROM t"):
                    out.add(pre + "{% for x in xs %}" + "".join(body) + "{% endfor %}" + suf)
    return sorted(out, key=lambda s: (len(s), s))


# ---- nested family (depth 2): an if / elif / for nested inside the body of an outer if / for,
# optionally followed by more conditional code -- the shape that yields variants whose path skips
# a nested tag.
def nested_templates(full: bool = False):
    lits = ["a", " b"]
    inner_items = list(lits) + ["{{ v }}"]
    for x in lits:
        inner_items.append("{% if d %}" + x + "{% endif %}")
        inner_items.append("{% if 3 == 4 %}" + x + "{% endif %}")
        inner_items.append("{% for y in xs %}" + x + "{% endfor %}")
    for x, y in itertools.product(lits, repeat=2):
        inner_items.append("{% if d %}" + x + "{% else %}" + y + "{% endif %}")
        inner_items.append("{% if c %}" + x + "{% elif d %}" + y + "{% endif %}")
    blocks = set(inner_items)
    for a, b in itertools.product(inner_items, repeat=2):
        if has_markup(a) or has_markup(b):
            blocks.add(a + b)
    blocks = sorted(b for b in blocks if "{%" in b)
    outers = []
    for b in blocks:
        outers.append("{% if c %}" + b + "{% endif %}")
        outers.append("{% for x in xs %}" + b + "{% endfor %}")
        for y in lits:
            outers.append("{% if c %}" + b + "{% else %}" + y + "{% endif %}")
    tails = ["", "z", "{% if d %}z{% endif %}", "{% if 1 == 2 %}z{% else %}w{% endif %}"]
    if full:
        tails += ["{% if c %}z{% else %}w{% endif %}", "{% for y in xs %}z{% endfor %}"]
    out = set()
    for o in outers:
        for t in tails:
            out.add(o + t)
    return sorted(out, key=lambda s: (len(s), s))


def has_markup(t: str) -> bool:
    return "{%" in t or "{{" in t or "{#" in t
