"""Thin helpers around the real sqlfluff objects (per-process caches)."""

from __future__ import annotations

import json

_CFG = {}
_LNT = {}


def cfg(dialect="ansi", templater=None, rules=None, exclude_rules=None, configs=None, **ov):
    key = json.dumps([dialect, templater, rules, exclude_rules, configs, ov], sort_keys=True, default=str)
    c = _CFG.get(key)
    if c is None:
        from sqlfluff.core import FluffConfig

        o = {"dialect": dialect}
        if templater:
            o["templater"] = templater
        if rules:
            o["rules"] = rules
        if exclude_rules:
            o["exclude_rules"] = exclude_rules
        o.update(ov)
        c = FluffConfig(configs=json.loads(json.dumps(configs)) if configs else None, overrides=o)
        _CFG[key] = c
    return c


def linter(dialect="ansi", templater=None, rules=None, exclude_rules=None, configs=None, **ov):
    key = json.dumps([dialect, templater, rules, exclude_rules, configs, ov], sort_keys=True, default=str)
    l = _LNT.get(key)
    if l is None:
        from sqlfluff.core import Linter

        l = Linter(config=cfg(dialect, templater, rules, exclude_rules, configs, **ov))
        _LNT[key] = l
    return l


def jinja_ctx_configs(ctx: dict):
    return {"templater": {"jinja": {"context": dict(ctx)}}}


def vt(v):
    """Canonical, comparable form of a violation."""
    return (v.rule_code(), v.line_no, v.line_pos, v.desc())


def linecol(src: str, pos: int):
    line = src.count("\n", 0, pos) + 1
    col = pos - (src.rfind("\n", 0, pos) + 1) + 1
    return line, col


def render(lnt, text, fname="f.sql"):
    return lnt.render_string(text, fname, lnt.config, "utf8")


def tree_sig(seg):
    """Canonical tuple of a tree: types, raws, positions, metas included."""
    pm = seg.pos_marker
    pos = (
        (pm.source_slice.start, pm.source_slice.stop, pm.templated_slice.start, pm.templated_slice.stop)
        if pm is not None
        else None
    )
    if not seg.segments:
        return (seg.get_type(), seg.raw, pos, getattr(seg, "indent_val", None) if seg.is_meta else None)
    return (seg.get_type(), pos, tuple(tree_sig(c) for c in seg.segments))


def type_shape(seg):
    if not seg.segments:
        return seg.get_type()
    return (seg.get_type(), tuple(type_shape(c) for c in seg.segments))
