"""Engine E2 plumbing: run a function in a fresh child forked from a pristine zygote.

The zygote is forked from the main process in `prepare()` -- i.e. before the main process has
used sqlfluff for anything but `import sqlfluff` -- and then does nothing but `import
sqlfluff.core / sqlfluff.cli.commands` and fork on request. Every request therefore starts from
the true import-time process state, and costs only the operations it contains.
"""

from __future__ import annotations

import ctypes
import importlib
import os
import pickle
import signal
import socket
import struct
import sys
import time
import traceback

from vf.core import _big, scratch_root

_ENV = "VF_ZYGOTE_SOCK"


def _recv_all(conn, n):
    buf = b""
    while len(buf) < n:
        chunk = conn.recv(n - len(buf))
        if not chunk:
            raise EOFError("zygote connection closed")
        buf += chunk
    return buf


def _send_msg(conn, obj):
    data = pickle.dumps(obj)
    conn.sendall(struct.pack("!I", len(data)) + data)


def _recv_msg(conn):
    (n,) = struct.unpack("!I", _recv_all(conn, 4))
    return pickle.loads(_recv_all(conn, n))


def _serve(path):
    try:
        ctypes.CDLL("libc.so.6").prctl(1, signal.SIGKILL)  # PR_SET_PDEATHSIG
    except Exception:
        pass
    import sqlfluff.core  # noqa: F401
    import sqlfluff.cli.commands  # noqa: F401
    import sqlfluff.api  # noqa: F401

    # Pre-import (import only, nothing is called) the modules every child would import lazily:
    # fresh children fault pages in very slowly when 16 run at once in this VM, and module import
    # is most of a short child's life. The process state stays "imported, nothing executed".
    import pkgutil

    import sqlfluff.rules

    for m in pkgutil.walk_packages(sqlfluff.rules.__path__, "sqlfluff.rules."):
        try:
            importlib.import_module(m.name)
        except Exception:
            pass
    for d in ("ansi", "tsql", "postgres"):
        try:
            importlib.import_module("sqlfluff.dialects.dialect_" + d)
        except Exception:
            pass
    for m in ("sqlfluff.core.templaters.jinja", "sqlfluff.core.templaters.python", "sqlfluff.core.templaters.placeholder", "sqlfluff.core.linter.runner", "sqlfluff.utils.reflow", "jinja2.sandbox", "jinja2.ext", "yaml", "chardet", "pathspec"):
        try:
            importlib.import_module(m)
        except Exception:
            pass

    signal.signal(signal.SIGCHLD, signal.SIG_IGN)
    srv = socket.socket(socket.AF_UNIX, socket.SOCK_STREAM)
    srv.bind(path)
    srv.listen(256)
    while True:
        conn, _ = srv.accept()
        pid = os.fork()
        if pid == 0:
            srv.close()
            signal.signal(signal.SIGCHLD, signal.SIG_DFL)
            try:
                mod, fn, args, cwd = _recv_msg(conn)
                if cwd:
                    os.chdir(cwd)
                f = getattr(importlib.import_module(mod), fn)
                out = ("ok", _big(f, *args))
            except BaseException:
                out = ("err", traceback.format_exc()[-3000:])
            try:
                _send_msg(conn, out)
                conn.close()
            finally:
                os._exit(0)
        conn.close()


_OWN = {}


def start_zygote():
    """Start a zygote owned by this process (call from a property's setup(), i.e. once per
    worker before it has executed any case, or from prepare() in the main process)."""
    if _OWN.get("pid") == os.getpid() and os.path.exists(_OWN["path"]):
        return
    root = os.path.join(os.path.dirname(os.path.dirname(os.path.abspath(__file__))), ".scratch", os.environ.get("VF_MAIN_PID", str(os.getpid())))
    os.makedirs(root, exist_ok=True)
    path = os.path.join(root, "zygote-%d.sock" % os.getpid())
    pid = os.fork()
    if pid == 0:
        try:
            _serve(path)
        finally:
            os._exit(0)
    # generous: the zygote pre-imports every rule and dialect, which takes a few seconds on an idle machine and
    # minutes on a loaded one; give up early only if the zygote process itself has died
    for _ in range(12000):
        if os.path.exists(path):
            break
        try:
            if os.waitpid(pid, os.WNOHANG)[0] == pid:
                break
        except ChildProcessError:
            break
        time.sleep(0.05)
    if not os.path.exists(path):
        raise RuntimeError("BROKEN-HARNESS: zygote did not start")
    os.environ[_ENV] = path
    _OWN["pid"] = os.getpid()
    _OWN["path"] = path
    import atexit

    atexit.register(lambda: _kill(pid))


def _kill(pid):
    try:
        os.kill(pid, signal.SIGKILL)
    except Exception:
        pass


class ChildError(Exception):
    pass


def in_child(mod: str, fn: str, *args, cwd: str | None = None):
    """Run mod.fn(*args) in a fresh child of the pristine zygote; return its (picklable) result."""
    path = _OWN.get("path") if _OWN.get("pid") == os.getpid() else None
    if not path:
        # replay mode / no zygote: fork from a fresh interpreter instead
        return _in_subprocess(mod, fn, args, cwd)
    conn = socket.socket(socket.AF_UNIX, socket.SOCK_STREAM)
    conn.connect(path)
    _send_msg(conn, (mod, fn, args, cwd))
    status, val = _recv_msg(conn)
    conn.close()
    if status != "ok":
        raise ChildError(val)
    return val


def _in_subprocess(mod, fn, args, cwd):
    import subprocess

    code = (
        "import sys,pickle,importlib,os\n"
        "from vf.core import _big\n"
        "mod,fn,args,cwd=pickle.loads(sys.stdin.buffer.read())\n"
        "import sqlfluff.core, sqlfluff.cli.commands, sqlfluff.api\n"
        "if cwd: os.chdir(cwd)\n"
        "r=_big(getattr(importlib.import_module(mod),fn),*args)\n"
        "sys.stdout.buffer.write(b'\\0RESULT\\0'+pickle.dumps(r))\n"
    )
    p = subprocess.run([sys.executable, "-c", code], input=pickle.dumps((mod, fn, args, cwd)), capture_output=True)
    if p.returncode != 0 or b"\0RESULT\0" not in p.stdout:
        raise ChildError(p.stderr.decode(errors="replace")[-3000:])
    return pickle.loads(p.stdout.split(b"\0RESULT\0", 1)[1])
