"""CLI: python -m vf.run <Cnn> [--tier quick|thorough] [--replay FILE]"""
import argparse
import atexit
import os
import sys

from vf import core


def main():
    ap = argparse.ArgumentParser()
    ap.add_argument("prop")
    ap.add_argument("--tier", default=os.environ.get("VERIF_TIER", "quick"), choices=["quick", "thorough"])
    ap.add_argument("--replay")
    a = ap.parse_args()
    replay = os.path.abspath(a.replay) if a.replay else None
    core.ensure_env()
    atexit.register(core.cleanup)
    seed = int(os.environ.get("VERIF_SEED", "0") or 0)
    pid = a.prop.upper()
    if replay:
        rc = core.replay(pid, replay)
    else:
        rc = core.run_property(pid, a.tier, seed)
    sys.stdout.flush()
    core.cleanup()
    os._exit(rc)


if __name__ == "__main__":
    main()
