"""CLI: python -m vf.run <Cnn> [--tier quick|thorough] [--replay FILE]"""
import argparse
import atexit
import os
import sys

from vf import core


def main():
    ap = argparse.ArgumentParser()
    ap.add_argument("prop")
    ap.add_argument("--tier", default=os.environ.get("VERIF_TIER", "quick"), choices=["quick", "thorough"])
    ap.add_argument("--replay")
    a = ap.parse_args()
    replay = os.path.abspath(a.replay) if a.replay else None
    core.ensure_env()
    atexit.register(core.cleanup)
    seed = int(os.environ.get("VERIF_SEED", "0") or 0)
    pid = a.prop.upper()
    try:
        if replay:
            rc = core.replay(pid, replay)
        else:
            rc = core.run_property(pid, a.tier, seed)
    except BaseException as e:  # a harness failure is never a verdict about sqlfluff: exit 2, no VIOLATION line
        import traceback

        print("BROKEN-HARNESS: %s: %s" % (type(e).__name__, e))
        traceback.print_exc()
        rc = 2
    sys.stdout.flush()
    core.cleanup()
    os._exit(rc)


if __name__ == "__main__":
    main()
