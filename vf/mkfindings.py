"""One-off helper (run by hand, never by a check): turn a VF_DUMP_FAILS file into candidate
known_findings.jsonl lines of kind "input", one per distinct failing case, for review.

    python -m vf.mkfindings C17 /tmp/fails/C17.jsonl "what text prefix"
"""

import json
import sys

from vf.core import case_id


def main(pid, path, what):
    seen = {}
    for line in open(path):
        f = json.loads(line)
        cid = case_id(f["case"])
        key = (cid, f["clause"])
        if key in seen:
            continue
        seen[key] = f
    for (cid, clause), f in sorted(seen.items(), key=lambda kv: json.dumps(kv[1]["case"])):
        c = f["case"]
        label = json.dumps(c, ensure_ascii=True)
        if len(label) > 160:
            label = label[:157] + "..."
        print(
            json.dumps(
                {
                    "property": pid,
                    "status": "open",
                    "what": f"{what}: {clause} {json.dumps(f.get('features', {}))} on input {label}",
                    "match": {"kind": "input", "case_id": cid, "clause": clause},
                },
                ensure_ascii=True,
            )
        )


if __name__ == "__main__":
    main(sys.argv[1], sys.argv[2], sys.argv[3] if len(sys.argv) > 3 else "")
