"""Summarise a VF_DUMP_FAILS file: counts per (clause, features) with the smallest case."""
import collections
import json
import sys


def main(path, drop=()):
    c = collections.Counter()
    ex = {}
    for l in open(path):
        f = json.loads(l)
        ft = {k: v for k, v in (f.get("features") or {}).items() if k not in drop}
        k = f["clause"] + " " + json.dumps(ft, sort_keys=True)
        c[k] += 1
        if k not in ex or len(json.dumps(f["case"])) < len(json.dumps(ex[k]["case"])):
            ex[k] = f
    for k, v in sorted(c.items()):
        print(v, k)
        if "-v" in sys.argv:
            print("     case:", json.dumps(ex[k]["case"])[:300])
            print("     detail:", json.dumps(ex[k].get("detail"))[:400])


if __name__ == "__main__":
    main(sys.argv[1], drop=[a[6:] for a in sys.argv if a.startswith("--drop=")])
