"""Reference model (C30): apply a set of pairwise-disjoint source edits exactly once.
An edit is (start, stop, replacement). No sqlfluff imports."""

import itertools


def conflict(a, b):
    (i1, j1, r1), (i2, j2, r2) = a, b
    if (i1, j1) == (i2, j2):
        return r1 != r2
    if i1 == j1 and i2 == j2:
        return False
    if i1 == j1:
        return i2 < i1 < j2
    if i2 == j2:
        return i1 < i2 < j1
    return max(i1, i2) < min(j1, j2)


def apply(src, edits):
    out = ""
    pos = 0
    for i, j, r in sorted(edits, key=lambda t: (t[0], t[1])):
        out += src[pos:i] + r
        pos = j
    return out + src[pos:]


def explain(src, output, patches):
    """-> (verdict, applied_subset). verdict True iff output == apply(S) for a pairwise-disjoint S
    such that every patch outside S conflicts with some other input patch."""
    uniq = sorted(set(patches))
    for k in range(len(uniq), -1, -1):
        for S in itertools.combinations(uniq, k):
            if any(conflict(a, b) for a, b in itertools.combinations(S, 2)):
                continue
            if apply(src, S) == output:
                dropped = [p for p in uniq if p not in S]
                if all(any(conflict(p, q) for q in uniq if q != p) for p in dropped):
                    return True, S
                return "dropped_nonconflicting", S
    return False, None
