"""Reference model for the placeholder templater (C09). The style table is a frozen copy of
the documented styles (docs/source/configuration/templating/placeholder.rst); rendering is a
single regex.sub. No sqlfluff imports."""

import regex

STYLES = {
    "colon": r"(?<![:\w\x5c]):(?P<param_name>\w+)",
    "colon_optional_quotes": r"(?<!:):(?P<quotation>['\"]?)(?P<param_name>[\w_]+)\1",
    "colon_nospaces": r"(?<!:):(?P<param_name>\w+)",
    "numeric_colon": r"(?<![:\w\x5c]):(?P<param_name>\d+)",
    "pyformat": r"(?<![:\w\x5c])%\((?P<param_name>[\w_]+)\)s",
    "dollar": r"(?<![:\w\x5c])\${?(?P<param_name>[\w_]+)}?",
    "dollar_surround": r"(?<![:\w\x5c])\$(?P<param_name>[-\w]+)\$",
    "flyway_var": r"\${(?P<param_name>\w+[:\w_]+)}",
    "question_mark": r"(?<![:\w\x5c])\?",
    "numeric_dollar": r"(?<![:\w\x5c])\${?(?P<param_name>[\d]+)}?",
    "percent": r"(?<![:\w\x5c])%s",
    "ampersand": r"(?<!&)&{?(?P<param_name>[\w]+)}?",
}


def render(src: str, style: str, values: dict):
    rx = regex.compile(STYLES[style], regex.UNICODE)
    counter = [0]

    def rep(m):
        gd = m.groupdict()
        if "param_name" in gd:
            name = gd["param_name"]
        else:
            counter[0] += 1
            name = str(counter[0])
        val = str(values[name]) if name in values else name
        q = gd.get("quotation") or ""
        return q + val + q

    return rx.sub(rep, src), len(rx.findall(src))
