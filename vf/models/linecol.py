"""Reference model (C31, C23): line = 1 + newlines before offset; column = 1-based position in its line."""


def linecol(text: str, pos: int):
    line = text.count("\n", 0, pos) + 1
    col = pos - (text.rfind("\n", 0, pos) + 1) + 1
    return line, col


def next_position(raw: str, line: int, col: int):
    for ch in raw:
        if ch == "\n":
            line, col = line + 1, 1
        else:
            col += 1
    return line, col
