"""Reference model for noqa (C20). Pure Python; the rule reference table (code/name/group/alias ->
codes) is passed in as data.

hidden(v) <=> a plain directive on v.line with rules None or containing v.rule
          or  the last range directive (by line, then document order) at or before v.line whose rule
              set is None or contains v.rule is a `disable`.
"""

import fnmatch

SPECIAL = ("PRS", "LXR", "TMP")


def expand(ref, refmap):
    out = set()
    matched = False
    for k in fnmatch.filter(list(refmap.keys()), ref):
        out |= set(refmap[k])
        matched = True
    if not matched:
        out.add(ref)  # unmatched references stay literal (PRS / TMP / LXR)
    return out


def parse_directive(body, refmap):
    """body e.g. 'noqa', 'noqa: LT01,CP01', 'noqa: disable=all' -> (action, rules|None)"""
    assert body.startswith("noqa")
    rest = body[4:]
    if not rest:
        return (None, None)
    assert rest.startswith(":")
    rest = rest[1:].strip()
    if not rest:
        return (None, None)
    action = None
    if "=" in rest:
        action, rest = rest.split("=", 1)
    if rest.strip() == "all":
        return (action, None)
    rules = set()
    for r in rest.split(","):
        rules |= expand(r.strip(), refmap)
    return (action, frozenset(rules))


def restrict(parsed, allowed):
    """disable_noqa_except: only `allowed` codes may be suppressed. -> parsed directive or None (inert)."""
    if allowed is None:
        return parsed
    action, rules = parsed
    if rules is None:
        return (action, frozenset(allowed))
    r = frozenset(rules) & frozenset(allowed)
    if not r:
        return None
    return (action, r)


def evaluate(violations, directives):
    """violations: [(code, line)], directives: [(line, (action, rules)) | (line, None)] in document order.
    -> (hidden index set, hiders: vi -> set(di))"""
    hidden = set()
    hiders = {i: set() for i in range(len(violations))}
    for vi, (code, line) in enumerate(violations):
        for di, (ln, p) in enumerate(directives):
            if p is None:
                continue
            action, rules = p
            if action is None and ln == line and (rules is None or code in rules):
                hidden.add(vi)
                hiders[vi].add(di)
        rel = [
            (ln, di, p[0])
            for di, (ln, p) in enumerate(directives)
            if p is not None and p[0] is not None and (p[1] is None or code in p[1]) and ln <= line
        ]
        rel.sort(key=lambda t: (t[0], t[1]))
        if rel and rel[-1][2] == "disable":
            hidden.add(vi)
            hiders[vi].add(rel[-1][1])
    return hidden, hiders
