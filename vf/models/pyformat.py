"""Reference model for the python templater (C09): Python's own str.format with dotted
names looked up in the `sqlfluff` mapping. No sqlfluff imports."""

import string


class Missing(Exception):
    pass


def render(src: str, ctx: dict):
    """-> rendered str, or raises Missing (key absent) / ValueError (invalid format string)."""
    out = []
    fmt = string.Formatter()
    for literal, field, spec, conv in fmt.parse(src):  # raises ValueError on invalid strings
        out.append(literal)
        if field is None:
            continue
        if "." in field:
            m = ctx.get("sqlfluff")
            if not isinstance(m, dict) or field not in m:
                raise Missing(field)
            val = m[field]
        else:
            if field == "" or field.isdigit():
                raise Missing(field)  # positional fields have no value in a keyword context
            if field not in ctx:
                raise Missing(field)
            val = ctx[field]
        if conv:
            val = fmt.convert_field(val, conv)
        out.append(format(val, spec or ""))
    return "".join(out)
