"""C15 Capitalisation fixes change only letter case."""

from __future__ import annotations

from vf import corpus, sq
from vf.core import digest
from vf.props import fixfam

LEVEL = "exploration"
RULE = (
    "6 hand-written statements covering identifiers {a, Ab, fooBar, FOO}, quoted identifiers, string literals, NULL/true/False, "
    "functions, types and comments containing keywords, plus G(1); every <=d case deviation (lower/upper/Capitalised/mIxed of one "
    "word) of each, plus two statements whose identifiers / function names contain non-ASCII letters (postgres, tsql, duckdb); x each CP rule alone and the capitalisation group x policies {consistent, upper, lower, capitalise} and the "
    "extended {pascal, snake, camel}; G(1) in every dialect under the group. Non-trivial = the fix changed the text; "
    "distinct (input, rule, policy) by construction."
)
ASSUMPTIONS = ["protected token classes are taken from the dialect lexer's own classification of the input"]
BOUND = {"quick": "(6 stmts + G(1)) x D(1;K) x 6 rule sets x 7 policies; G(1) x 28 dialects", "thorough": "(6 stmts + G(1)) x D(2;K) x 6 x 7; G(1)xD(1;K) x 28 dialects"}
FLOOR = {"quick": 5000, "thorough": 30000}
CHUNK = 1

BASE = [
    "SELECT a, Ab, fooBar, FOO FROM t\n",
    "SELECT \"Quoted\", 'Str select From', NULL, true, False FROM Tbl -- select From\n",
    "SELECT Count(a), sum(b), CAST(a AS Int) FROM t /* Select null */\n",
    "CREATE TABLE t (a INT, b varchar(10), c Timestamp)\n",
    "SELECT a FROM t WHERE a IS NOT NULL and b = TRUE Or c in (1, 2)\n",
    "select a as A_b, t.Col from Sch.Tbl as t order BY 1 desc\n",
    # quoted identifiers, literals and comments in TYPE position (user-defined / schema-qualified types)
    "SELECT CAST(a AS \"MyType\"), CAST(b AS Int) FROM t\n",
    "CREATE TABLE t (a \"MyType\", b \"Sch\".\"MoodEnum\", c varchar(10))\n",
    "CREATE TABLE t (a double /* Foo */ precision, b Int -- Bar\n)\n",
]
UNICODE_BASE = [
    "SELECT caf\u00e9_cm, \u00d6l_tbl.Spalte, fooBar FROM tabelle_\u00f6\n",
    "SELECT Gr\u00f6sse(a), \u0434\u0430\u043d\u043d\u044b\u0435, \u0394x FROM \u0442\u0430\u0431\u043b\u0438\u0446\u0430 AS T\u00e4\n",
]
POLICIES = ["consistent", "upper", "lower", "capitalise", "pascal", "snake", "camel"]
RULES = ["capitalisation", "CP01", "CP02", "CP03", "CP04", "CP05"]


def cp_cfg(pol):
    basic = pol if pol in ("consistent", "upper", "lower", "capitalise") else "consistent"
    return {
        "rules": {
            "capitalisation.keywords": {"capitalisation_policy": basic},
            "capitalisation.identifiers": {"extended_capitalisation_policy": pol},
            "capitalisation.functions": {"extended_capitalisation_policy": pol},
            "capitalisation.literals": {"capitalisation_policy": basic},
            "capitalisation.types": {"extended_capitalisation_policy": pol},
        }
    }


def cases(tier):
    d = 1 if tier == "quick" else 2
    ss = corpus.D(BASE + corpus.G(1), d, "K")
    out = []
    for r in RULES:
        for p in POLICIES:
            for i in range(0, len(ss), 64):
                out.append({"k": "cp", "d": "ansi", "r": r, "p": p, "ss": ss[i : i + 64]})
    # identifiers / function names with non-ASCII letters, in the dialects whose lexers accept them unquoted
    us = corpus.D(UNICODE_BASE, d, "K")
    for dl in ("postgres", "tsql", "duckdb"):
        for r in RULES:
            for p in POLICIES:
                out.append({"k": "cp", "d": dl, "r": r, "p": p, "ss": us})
    g = corpus.G(1) if tier == "quick" else corpus.D(corpus.G(1), 1, "K")
    for dl in corpus.dialects():
        if dl == "ansi":
            continue
        for p in ("consistent", "upper", "lower"):
            for i in range(0, len(g), 64):
                out.append({"k": "cp", "d": dl, "r": "capitalisation", "p": p, "ss": g[i : i + 64]})
    return out


PROTECTED = ("double_quote", "single_quote", "back_quote", "comment", "inline_comment", "block_comment", "whitespace", "newline")


def run_case(case):
    res = {"n": 0, "fails": [], "cls": set(), "stats": {}, "nontrivial": 0}
    lnt = sq.linter(case["d"], "raw", rules=case["r"], configs=cp_cfg(case["p"]))
    for text in case["ss"]:
        res["n"] += 1
        one = dict(case, ss=[text])

        def add(clause, features, detail, _one=one):
            res["fails"].append({"clause": clause, "features": features, "detail": detail, "case": _one})

        try:
            lf, fixed = fixfam.run_fix(lnt, text)
        except Exception:
            fixfam.bump(res, "fix_exception")
            continue
        if fixed is None or fixed == text:
            continue
        res["nontrivial"] += 1
        res.setdefault("sample", one)
        res["cls"].add(digest((text, fixed, case["r"], case["p"])))
        if text.casefold() == fixed.casefold():
            pass  # case-only by Unicode rules even where one character folds to two (sharp s)
        elif len(fixed) != len(text) or any(a != b and a.lower() != b.lower() for a, b in zip(text, fixed)):
            add("not_case_only", {"policy": case["p"], "length_changed": len(fixed) != len(text)}, {"fixed": fixed[:200]})
            continue
        toks, _ = fixfam.lex_text(lnt, text)
        lf_tree_types = list(lf.tree.recursive_crawl("data_type")) if lf.tree is not None else []
        for t in toks:
            if t.is_meta or not t.raw:
                continue
            if t.is_type(*PROTECTED) or t.is_comment or t.is_type("quoted_literal", "quoted_identifier"):
                ss = t.pos_marker.source_slice
                if fixed[ss] != text[ss]:
                    in_type = False
                    try:
                        # structural feature: the protected token sits directly inside a data_type node
                        for seg in lf_tree_types:
                            if seg.pos_marker.source_slice.start <= ss.start and ss.stop <= seg.pos_marker.source_slice.stop:
                                in_type = True
                    except Exception:
                        pass
                    add("protected_token_changed", {"type": t.get_type(), "rule": case["r"], "inside_data_type": in_type}, {"token": t.raw, "now": fixed[ss], "fixed": fixed[:200]})
    return res
