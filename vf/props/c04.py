"""C04 Parse, lint and fix never crash."""

from __future__ import annotations

import itertools

from vf import corpus, sq
from vf.core import digest

LEVEL = "exploration"
RULE = (
    "Sigma_c^<=2 x templaters {raw, jinja, python, placeholder} x {parse, lint(all rules), fix(all rules)}; Sigma_c^<=3 parse under the "
    "default (jinja) templater; Sigma_t24^<=3 lint, ^<=2 fix; G(1)xD(1; every operator incl. all truncations) lint+fix; G(1) and "
    "Sigma_t18+dialect tokens ^<=2 in every dialect (lint, fix on G(1)); limit family: nesting depth n in {1..40,100,254,255,256,400} of "
    "'(' / CASE / subquery / unclosed '(' x max_parse_depth in {255, 6, 0} and token counts limit-1, limit, limit+1 x max_parse_nodes in "
    "{default, 25, 0}; the public API sqlfluff.lint/fix/parse on the G(0)xD(1) strings. Oracle: a result is returned, no exception "
    "of any type escapes; limit excess yields a PRS violation naming the limit. Non-trivial = at least one TMP/LXR/PRS or rule "
    "violation was reported (the input exercised an error path); distinct (input, mode, config) by construction."
)
ASSUMPTIONS = ["sqlfluff.parse is documented to raise APIParsingError on unparsable input; that exception type is accepted from it"]
BOUND = {"quick": "as in rule", "thorough": "Sigma_c^<=3 x 4 templaters lint; Sigma_t24^<=4 lint; G(2)xD(1) lint+fix; dialects x G(1)xD(1)"}
FLOOR = {"quick": 20000, "thorough": 100000}
CHUNK = 1
TIMEOUT = 900  # the unlimited-depth nesting cases are slow when the machine is loaded

TPL_CFG = {
    "raw": None,
    "jinja": None,
    "python": {"templater": {"python": {"context": {"a": "x"}}}},
    "placeholder": {"templater": {"placeholder": {"param_style": "colon"}}},
}
DEPTHS = list(range(1, 41)) + [100, 254, 255, 256, 400]


def nest(kind, n):
    if kind == "paren":
        return "SELECT " + "(" * n + "1" + ")" * n + "\n"
    if kind == "case":
        return "SELECT " + "CASE WHEN a THEN " * n + "1" + " END" * n + "\n"
    if kind == "sub":
        return "SELECT a FROM " + "(SELECT a FROM " * n + "t" + ")" * n + "\n"
    return "SELECT " + "(" * n + "1\n"


def cases(tier):
    out = []
    n = 2 if tier == "quick" else 3
    for tpl in TPL_CFG:
        for c in [None] + corpus.SIGMA_C:
            out.append({"k": "cblock", "tpl": tpl, "p": c, "n": n, "modes": ["parse", "lint", "fix"] if n == 2 else ["lint"]})
    if tier == "thorough":
        for tpl in TPL_CFG:
            for c in [None] + corpus.SIGMA_C:
                out.append({"k": "cblock", "tpl": tpl, "p": c, "n": 2, "modes": ["parse", "fix"]})
    else:
        for c in corpus.SIGMA_C:
            out.append({"k": "cblock", "tpl": "jinja", "p": c, "n": 3, "modes": ["parse"]})
    kt = 3 if tier == "quick" else 4
    for t in corpus.SIGMA_T24:
        out.append({"k": "tblock", "d": "ansi", "p": t, "n": kt, "modes": ["lint"]})
        out.append({"k": "tblock", "d": "ansi", "p": t, "n": kt - 1, "modes": ["fix"]})
    gd = corpus.D(corpus.G(1) if tier == "quick" else corpus.G(2), 1)
    for i in range(0, len(gd), 16):
        out.append({"k": "strs", "d": "ansi", "ss": gd[i : i + 16], "modes": ["lint", "fix"]})
    api = sorted(set(corpus.D(corpus.G(0), 1)) | {"", "()", "{#", ";"}, key=lambda s: (len(s), s))
    for i in range(0, len(api), 4):
        out.append({"k": "strs", "d": "ansi", "ss": api[i : i + 4], "modes": ["api"]})
    g1 = corpus.G(1) if tier == "quick" else corpus.D(corpus.G(1), 1, "WX")
    for d in corpus.dialects():
        if d == "ansi":
            continue
        for i in range(0, len(g1), 16):
            out.append({"k": "strs", "d": d, "ss": g1[i : i + 16], "modes": ["lint", "fix"]})
        for t in corpus.SIGMA_T18 + corpus.DIALECT_TOKENS.get(d, []):
            out.append({"k": "tblock", "d": d, "p": t, "n": 2, "ext": True, "modes": ["lint"]})
    # Jinja files whose tokens span template slices / templated whitespace next to literal whitespace
    sp = corpus.span_templates(3 if tier == "quick" else 4)
    for i in range(0, len(sp), 16):
        out.append({"k": "jinja", "ss": sp[i : i + 16], "modes": ["parse", "lint", "fix"]})
    for kind in ("paren", "case", "sub", "open"):
        for mpd in (255, 6, 0):
            out.append({"k": "nest", "kind": kind, "mpd": mpd, "ns": DEPTHS})
    for mpn in (None, 25, 0):
        out.append({"k": "nodes", "mpn": mpn})
    # every max_parse_depth value around what a tiny file needs (the limit hit during parse, during the
    # re-parse that validates a fix, exactly at the boundary ...), not a sample of three values
    for text in ("select  ((1))", "SELECT a  FROM t\n", "SELECT CASE WHEN a THEN (b) END  FROM t"):
        out.append({"k": "depthscan", "s": text, "lo": 1, "hi": 140})
    # the (deprecated) character limit: files over it are skipped, never an exception, on every entry point
    for tpl in TPL_CFG:
        out.append({"k": "charlimit", "tpl": tpl})
    return out


def attempt(fn, add, mode, res, allow=()):
    try:
        return fn()
    except allow:
        res["stats"]["allowed_api_error"] = res["stats"].get("allowed_api_error", 0) + 1
        return None
    except BaseException as e:  # noqa
        if isinstance(e, (KeyboardInterrupt, SystemExit)) or type(e).__name__ == "_Timeout":
            raise
        import traceback

        tb = traceback.extract_tb(e.__traceback__)
        where = next((f"{f.filename.split('/sqlfluff/')[-1]}:{f.name}" for f in reversed(tb) if "/sqlfluff/" in f.filename), "?")
        add("exception", {"type": type(e).__name__, "where": where, "mode": mode}, {"msg": str(e)[:300]})
        return None


def run_modes(lnt, text, modes, one, res, dialect="ansi"):
    for mode in modes:
        res["n"] += 1
        o = dict(one, modes=[mode])

        def add(clause, features, detail, _one=o):
            res["fails"].append({"clause": clause, "features": features, "detail": detail, "case": _one})

        nt = False
        if mode == "parse":
            r = attempt(lambda: lnt.parse_string(text), add, mode, res)
            if r is not None:
                nt = bool(r.violations)
                res["cls"].add(digest(("p", tuple(sorted({v.rule_code() for v in r.violations})))))
        elif mode in ("lint", "fix"):
            def go():
                lf = lnt.lint_string(text, fix=(mode == "fix"))
                if mode == "fix" and lf.tree is not None and lf.templated_file is not None:
                    lf.fix_string()
                return lf

            lf = attempt(go, add, mode, res)
            if lf is not None:
                nt = bool(lf.violations)
                res["cls"].add(digest((mode, tuple(sorted({v.rule_code() for v in lf.violations})))))
        elif mode == "api":
            import sqlfluff
            from sqlfluff.api.simple import APIParsingError

            attempt(lambda: sqlfluff.lint(text, dialect=dialect), add, "api.lint", res)
            attempt(lambda: sqlfluff.fix(text, dialect=dialect), add, "api.fix", res)
            attempt(lambda: sqlfluff.parse(text, dialect=dialect), add, "api.parse", res, allow=(APIParsingError,))
        if nt:
            res["nontrivial"] += 1
            res.setdefault("sample", o)


def run_case(case):
    res = {"n": 0, "fails": [], "cls": set(), "stats": {}, "nontrivial": 0}
    k = case["k"]
    if k == "cblock":
        tpl = case["tpl"]
        lnt = sq.linter("ansi", tpl, configs=TPL_CFG[tpl])
        if case["p"] is None:
            strs = [""]
        else:
            strs = [case["p"] + s for s in corpus.sigma_c(case["n"] - 1)]
        for s in strs:
            run_modes(lnt, s, case["modes"], {"k": "one", "tpl": tpl, "d": "ansi", "s": s}, res)
    elif k == "tblock":
        lnt = sq.linter(case["d"])
        al = corpus.SIGMA_T24 if not case.get("ext") else corpus.SIGMA_T18 + corpus.DIALECT_TOKENS.get(case["d"], [])
        p = case["p"]
        for s in corpus.token_seqs(al, case["n"] - 1):
            txt = p + ("" if (not s or p.endswith("\n")) else " ") + s
            run_modes(lnt, txt, case["modes"], {"k": "one", "tpl": None, "d": case["d"], "s": txt}, res, case["d"])
    elif k == "strs":
        lnt = sq.linter(case["d"])
        for s in case["ss"]:
            run_modes(lnt, s, case["modes"], {"k": "one", "tpl": None, "d": case["d"], "s": s}, res, case["d"])
    elif k == "jinja":
        lnt = sq.linter("ansi", "jinja", configs=sq.jinja_ctx_configs(corpus.T_CTX[2]))
        for s in case["ss"]:
            run_modes(lnt, s, case["modes"], {"k": "one", "tpl": "jinja", "d": "ansi", "s": s, "ctx": 2}, res)
    elif k == "one":
        cfgs = sq.jinja_ctx_configs(corpus.T_CTX[case["ctx"]]) if case.get("ctx") is not None else TPL_CFG.get(case["tpl"])
        lnt = sq.linter(case["d"], case["tpl"], configs=cfgs)
        run_modes(lnt, case["s"], case["modes"], case, res, case["d"])
    elif k == "depthscan":
        for mpd in range(case["lo"], case["hi"] + 1):
            if "only" in case and case["only"] != mpd:
                continue
            lnt = sq.linter("ansi", "raw", max_parse_depth=mpd)
            run_modes(lnt, case["s"], ["parse", "lint", "fix"], {"k": "depthscan", "s": case["s"], "lo": mpd, "hi": mpd, "only": mpd}, res)
    elif k == "charlimit":
        import sqlfluff
        from sqlfluff.api.simple import APIParsingError
        from sqlfluff.core import FluffConfig

        tpl = case["tpl"]
        cfgs = dict(TPL_CFG[tpl] or {})
        for limit in (5, 16):
            lnt = sq.linter("ansi", tpl, configs=cfgs, large_file_skip_char_limit=limit)
            for s in ("SELECT 1", "SELECT a  FROM t\n", "SELECT a, b, c, d, e, f FROM some_table WHERE x = 1\n"):
                one = {"k": "charlimit1", "tpl": tpl, "limit": limit, "s": s}
                run_modes(lnt, s, ["parse", "lint", "fix"], one, res)
                o = dict(one, modes=["api"])

                def add(clause, features, detail, _one=o):
                    res["fails"].append({"clause": clause, "features": features, "detail": detail, "case": _one})

                cfg = FluffConfig(configs=cfgs or None, overrides={"dialect": "ansi", "templater": tpl, "large_file_skip_char_limit": limit})
                res["n"] += 3
                attempt(lambda: sqlfluff.lint(s, config=cfg), add, "api.lint", res)
                attempt(lambda: sqlfluff.fix(s, config=cfg), add, "api.fix", res)
                attempt(lambda: sqlfluff.parse(s, config=cfg), add, "api.parse", res, allow=(APIParsingError,))
    elif k == "charlimit1":
        cfgs = dict(TPL_CFG[case["tpl"]] or {})
        lnt = sq.linter("ansi", case["tpl"], configs=cfgs, large_file_skip_char_limit=case["limit"])
        run_modes(lnt, case["s"], case.get("modes", ["parse", "lint", "fix"]), case, res)
    elif k == "nest":
        lnt = sq.linter("ansi", "raw", max_parse_depth=case["mpd"])
        for n in case["ns"]:
            text = nest(case["kind"], n)
            one = {"k": "nest", "kind": case["kind"], "mpd": case["mpd"], "ns": [n]}
            before = len(res["fails"])
            run_modes(lnt, text, ["lint", "fix"], one, res)
            for f in res["fails"][before:]:
                # tells the recorded call site (limit switched off, real recursion) from any other RecursionError
                f["features"] = dict(f["features"], depth_limit_disabled=(case["mpd"] == 0))
    elif k == "nodes":
        mpn = case["mpn"]
        limit = mpn if mpn else 25
        for delta in (-1, 0, 1):
            for shape in ("cols", "stmts", "comments", "blank", "ws"):
                # number of lexed tokens is what the limit counts; build around it
                ncols = max(1, (limit + delta) // 3)
                if shape in ("cols", "stmts"):
                    text = ("SELECT " + ", ".join(["a"] * ncols) + " FROM t\n") if shape == "cols" else ("SELECT 1;" * ncols + "\n")
                else:
                    # no code token at all (comment-only / blank / whitespace-only files), around and over the limit
                    unit = {"comments": "-- c\n", "blank": "\n", "ws": "  \n"}[shape]
                    text = unit * max(1, (limit + 2 * delta + 2) // (2 if shape != "blank" else 1))
                ov = {} if mpn is None else {"max_parse_nodes": mpn}
                lnt = sq.linter("ansi", "raw", **ov)
                run_modes(lnt, text, ["parse", "lint", "fix"], {"k": "nodes", "mpn": mpn, "delta": delta, "shape": shape}, res)
                if mpn:
                    from sqlfluff.core import Lexer

                    ntok = len(Lexer(config=lnt.config).lex(text)[0])
                    try:
                        lf = lnt.lint_string(text)
                    except Exception:
                        continue  # already reported as `exception` by run_modes above
                    limited = any("Maximum parse node count exceeded" in v.desc() for v in lf.violations)
                    # one direction only: more tokens than the limit must be reported; fewer tokens can still exceed it,
                    # because the parser counts the nodes it builds, not the tokens (an 'iff' here was a false alarm)
                    if ntok > mpn and not limited:
                        res["fails"].append({"clause": "node_limit", "features": {}, "detail": {"tokens": ntok, "limit": mpn, "reported": limited}, "case": {"k": "nodes", "mpn": mpn}})
    return res
