"""C23 Reported violation positions are accurate."""

from __future__ import annotations

import json
import os

from vf import cli, corpus, sq
from vf.core import digest, scratch_root
from vf.models.linecol import linecol
from vf.props import fixfam, parsefam

LEVEL = "exploration"
RULE = (
    "all rules on: G(1)xD(1;WKME)+operator list (multi-line via the W/M deviations), every rule-YAML string with its own config/dialect, "
    "Jinja skeletons T (depth 1, len <= bound) x 6 contexts, dialect fixtures <= 400 B in their own dialect. Oracle per reported "
    "violation: 1 <= line <= #lines+1, 1 <= col <= len(line)+1 in the ORIGINAL source; where start/end_file_pos exist, linecol(source, pos) == "
    "(line, col) at both ends and end >= start; for a lint violation whose anchor is literal in the source, source[start:end] == anchor "
    "text; the same for every fix edit. CLI formats json / yaml / github-annotation / github-annotation-native / sarif on a file family must "
    "carry the same numbers as the API records. Non-trivial = >= 1 violation with file offsets was reported."
)
ASSUMPTIONS = ["line/column model = count of \\n before the offset (vf/models/linecol.py), source normalised CRLF->LF as sqlfluff does on read"]
BOUND = {"quick": "G(1)xD(1;WKME)+glue; YAML strings; T len<=32 x 6 ctx; fixtures<=400B; 40 CLI files x 5 formats", "thorough": "G(2)xD(1;WKME); T len<=44; fixtures<=2000B"}
FLOOR = {"quick": 5000, "thorough": 30000}
CHUNK = 1

CLI_FILES = [
    "select a  from t\n",
    "SELECT a\n  ,b FROM t\n",
    "SELECT a from t WHERE a=1\n\n\n",
    "SELECT a b c FROM t\n",
    "SELECT {{ v }}  ,b FROM t\n",
    "{% if c %}select  1{% endif %}\nSELECT a\n",
    "SELECT 'é', 中 FROM t  \n",
    "  SELECT 1",
]



def spans_backward_jump(seg):
    """Structural label (never a verdict): the anchor's raw tokens do not run forward in the source -- it spans two
    iterations of a template loop (or a token whose source slice is inverted)."""
    if seg is None:
        return False
    prev = None
    try:
        for r in seg.raw_segments:
            pm = r.pos_marker
            if pm is None:
                continue
            ss = pm.source_slice
            if ss.start > ss.stop or (prev is not None and ss.start < prev):
                return True
            prev = ss.start
    except Exception:
        return False
    return False

def cases(tier):
    out = fixfam.fix_cases(tier, rulesets_raw=("all",), rulesets_yaml=("all",))
    ml = 32 if tier == "quick" else 44
    ts = [t for t in corpus.t_seqs(1, 2, corpus.T_LITS, max_len=ml) if corpus.has_markup(t)]
    # + tokens spanning 2-3 template slices / templated whitespace (no separating spaces)
    ts = sorted(set(ts) | set(corpus.span_templates(3)), key=lambda s: (len(s), s))
    for i in range(0, len(ts), 8):
        out.append({"k": "jinja", "ts": ts[i : i + 8]})
    fx = corpus.fixtures(400 if tier == "quick" else 2000)
    for i in range(0, len(fx), 8):
        out.append({"k": "fixtures", "ids": [f[1] for f in fx[i : i + 8]]})
    for i, t in enumerate(CLI_FILES):
        out.append({"k": "cli", "i": i})
    return out


def check_lf(lf, src_raw, add, res):
    src = src_raw.replace("\r\n", "\n")
    lines = src.split("\n")
    nlines = len(lines)
    nt = False
    for v in lf.violations:
        d = v.to_dict()
        ln, lp = d["start_line_no"], d["start_line_pos"]
        code = d["code"]
        if not (1 <= ln <= nlines and 1 <= lp <= len(lines[ln - 1]) + 1):
            if not (ln == nlines + 1 and lp == 1):
                add("out_of_file", {"code": code}, {"line": ln, "pos": lp, "nlines": nlines})
                continue
        if "start_file_pos" in d:
            nt = True
            sp, ep = d["start_file_pos"], d["end_file_pos"]
            if not (0 <= sp <= ep <= len(src)):
                add("offset_bounds", {"code": code, "anchor_spans_backward_source_jump": spans_backward_jump(getattr(v, "segment", None))}, {"start": sp, "end": ep, "len": len(src)})
                continue
            if linecol(src, sp) != (ln, lp):
                add("start_offset_vs_linecol", {"code": code}, {"offset": sp, "model": linecol(src, sp), "reported": [ln, lp]})
            if linecol(src, ep) != (d["end_line_no"], d["end_line_pos"]):
                add("end_offset_vs_linecol", {"code": code}, {"offset": ep, "model": linecol(src, ep), "reported": [d["end_line_no"], d["end_line_pos"]]})
            seg = getattr(v, "segment", None)
            if seg is not None and seg.pos_marker is not None and seg.pos_marker.is_literal() and seg.raw and code not in ("PRS",):
                if src[sp:ep] != seg.raw:
                    add("anchor_text", {"code": code, "anchor_spans_backward_source_jump": spans_backward_jump(seg)}, {"source": src[sp:ep][:40], "anchor": seg.raw[:40]})
        for f in d.get("fixes", []) or []:
            if "start_file_pos" in f:
                if linecol(src, f["start_file_pos"]) != (f["start_line_no"], f["start_line_pos"]):
                    add("fix_offset_vs_linecol", {"code": code}, {"fix": {k: f[k] for k in f if k != "edit"}})
    return nt


def run_cli(case, res):
    i = case["i"]
    text = CLI_FILES[i]
    d = os.path.join(scratch_root(), f"c23-{os.getpid()}-{i}")
    os.makedirs(d, exist_ok=True)
    with open(os.path.join(d, ".sqlfluff"), "w") as f:
        f.write("[sqlfluff]\ndialect = ansi\n[sqlfluff:templater:jinja:context]\nc = True\nv = 1\n")
    with open(os.path.join(d, "f.sql"), "w", newline="") as f:
        f.write(text)
    one = {"k": "cli", "i": i}

    def add(clause, features, detail):
        res["fails"].append({"clause": clause, "features": features, "detail": detail, "case": one})

    rc, out, err, exc = cli.run(["lint", "f.sql", "--format", "json"], cwd=d)
    res["n"] += 1
    try:
        recs = json.loads(out)
    except Exception:
        add("cli_json_unparsable", {}, {"out": out[:200], "exc": exc})
        return
    base = [(v["code"], v["start_line_no"], v["start_line_pos"], v.get("end_line_no"), v.get("end_line_pos")) for r in recs for v in r["violations"]]
    lnt = sq.linter("ansi", "jinja", configs={"templater": {"jinja": {"context": {"c": True, "v": 1}}}})
    lf = lnt.lint_string(text)
    api = [(v.rule_code(), v.line_no, v.line_pos) for v in lf.get_violations(filter_warning=False)]
    if sorted(api) != sorted(b[:3] for b in base):
        add("cli_json_vs_api", {}, {"api": api[:6], "cli": base[:6]})
    if base:
        res["nontrivial"] += 1
    for fmt in ("yaml", "github-annotation", "github-annotation-native", "sarif"):
        res["n"] += 1
        rc2, out2, _, exc2 = cli.run(["lint", "f.sql", "--format", fmt], cwd=d)
        try:
            if fmt == "yaml":
                import yaml

                got = [(v["code"], v["start_line_no"], v["start_line_pos"], v.get("end_line_no"), v.get("end_line_pos")) for r in yaml.safe_load(out2) for v in r["violations"]]
            elif fmt == "github-annotation":
                got = [(g["message"].split(":")[0], g["start_line"], g["start_column"], g["end_line"], g["end_column"]) for g in json.loads(out2)]
                exp = [(b[0], b[1], b[2], b[3] if b[3] is not None else b[1], b[4] if b[4] is not None else b[2]) for b in base]
                if got != exp:
                    add("cli_format_positions", {"format": fmt}, {"got": got[:5], "want": exp[:5]})
                continue
            elif fmt == "github-annotation-native":
                got = []
                for line in out2.splitlines():
                    if line.startswith("::") and "line=" in line:
                        head, msg = line[2:].split("::", 1)
                        kv = dict(p.split("=", 1) for p in head.split(" ", 1)[1].split(","))
                        got.append((msg.split(":")[0], int(kv["line"]), int(kv["col"]), int(kv["endLine"]) if "endLine" in kv else None, int(kv["endColumn"]) if "endColumn" in kv else None))
            else:
                doc = json.loads(out2)
                got = []
                for r in doc["runs"][0]["results"]:
                    reg = r["locations"][0]["physicalLocation"]["region"]
                    got.append((r["ruleId"], reg["startLine"], reg["startColumn"], reg.get("endLine"), reg.get("endColumn")))
        except Exception as e:
            add("cli_format_unparsable", {"format": fmt}, {"err": repr(e)[:200], "out": out2[:200]})
            continue
        if got != base:
            add("cli_format_positions", {"format": fmt}, {"got": got[:5], "want": base[:5]})


def run_case(case):
    res = {"n": 0, "fails": [], "cls": set(), "stats": {}, "nontrivial": 0}
    k = case["k"]
    if k == "cli":
        run_cli(case, res)
        return res
    if k == "jinja":
        items = [({"k": "jinja", "ts": [t], "ctx": ci}, parsefam.get_linter("ansi", "jinja", ci, rules="all"), t) for t in case["ts"] for ci in range(len(corpus.T_CTX)) if case.get("ctx", ci) == ci]
    elif k == "fixtures":
        items = [(one, sq.linter(d, "raw", rules="all"), text) for one, d, tpl, ci, text in parsefam.expand(case)]
    else:
        items = list(fixfam.expand(case))
    for one, lnt, text in items:
        res["n"] += 1

        def add(clause, features, detail, _one=one):
            res["fails"].append({"clause": clause, "features": features, "detail": detail, "case": _one})

        try:
            lf = lnt.lint_string(text)
        except Exception:
            fixfam.bump(res, "exception")
            continue
        if check_lf(lf, text, add, res):
            res["nontrivial"] += 1
            res.setdefault("sample", one)
        res["cls"].add(digest(tuple(sq.vt(v)[:3] for v in lf.violations)))
    return res
