"""C24 Parallel and serial runs agree (engine E3: exhaustive schedule enumeration of the worker pool).

MultiProcessRunner's pool is replaced (harness side) by a VirtualPool whose imap_unordered is driven
by an explicit choice sequence over the events  start(next task -> idle worker w)  and
finish(busy worker w).  Tasks cross a real pickle boundary and run in real separate processes: for
every worker *history* (the ordered tasks one worker executes) a fresh child of the pristine zygote
runs ParallelRunner._init_global and then _apply on each unpickled task in turn, returning the
pickled results; since workers are separate processes that share nothing but the (distinct) files
they read, the result of a task depends only on its worker's history, so the per-history results are
computed once and every schedule is replayed against the real main-side code (lint_paths result
aggregation, fix persistence, skip counting, fatal handling) with those real results.
"""

from __future__ import annotations

import itertools
import os
import pickle
import shutil

from vf import hist
from vf.core import case_id, digest, scratch_root

LEVEL = "exploration"
RULE = (
    "directories of N=3 (thorough: 4) files whose kinds are drawn from {clean, LT01-fixable, unparsable, Jinja file in a sub-directory with its "
    "own .sqlfluff templater context, inline `-- sqlfluff:` config, over the byte limit, whitespace-only}: every set of distinct kinds (quick) / every multiset "
    "(thorough) x workers K in {2, 3} (thorough: + 4) x EVERY schedule (assignment of tasks to workers + completion order) x {lint, fix with "
    "apply_fixes} x path order {directory, reversed explicit file list} x templating in worker / in main process. Oracle: per-file violation "
    "records, bytes on disk after fix, files_skipped and the exit code computed by LintingResult.stats equal those of a serial "
    "(processes=1) run in a fresh process. A real MultiProcessRunner (spawn, K=2) run is compared too (conformance of the virtual pool). "
    "Non-trivial = a schedule whose completion order differs from submission order."
)
ASSUMPTIONS = [
    "the virtual pool reproduces Pool's observable contract (ordered hand-out, unordered completion, pickled boundary, per-worker persistent state), not its thread internals",
    "files in a directory are distinct paths, so a task's result depends only on its worker's history (the same-file-twice family is out of scope here)",
]
BOUND = {"quick": "35 directories (3 distinct kinds of 7) x K in {2,3} x all schedules x {lint, fix} x 2 path orders; templating-in-main on K=2", "thorough": "84 multisets, N=4 for distinct kinds, K up to 4"}
FLOOR = {"quick": 1000, "thorough": 10000}
CHUNK = 1
TIMEOUT = 900  # per case; fresh child processes are slow when the machine is loaded

KINDS = ["clean", "fixable", "unparsable", "jinja", "inline", "oversize", "blank"]
TEXT = {
    "clean": "SELECT a FROM t\n",
    "fixable": "SELECT a  from t\n",
    "unparsable": "SELECT a b c FROM t;\nSELECT b  FROM u\n",
    "jinja": "SELECT {{ col }}  FROM {{ tbl }}\n",
    "inline": "-- sqlfluff:rules:capitalisation.keywords:capitalisation_policy:lower\nSELECT a FROM t\n",
    "oversize": "SELECT a  FROM t -- " + "x" * 400 + "\n",
    # whitespace only (no token besides whitespace / newline): still has LT01 violations and a fix
    "blank": "    \n\t\n",
}


def cases(tier):
    out = []
    if tier == "quick":
        dirs = [list(c) for c in itertools.combinations(KINDS, 3)]
        ks = (2, 3)
    else:
        dirs = [list(c) for c in itertools.combinations_with_replacement(KINDS, 3)] + [list(c) for c in itertools.combinations(KINDS, 4)]
        ks = (2, 3, 4)
    for d in dirs:
        if tier == "quick":
            # fresh worker processes are the cost driver (about 7 per case and templating mode):
            # quick pairs the axes instead of crossing them; thorough crosses them.
            out.append({"kinds": d, "fix": False, "order": "dir", "ks": list(ks), "tiws": [True, False]})
            out.append({"kinds": d, "fix": True, "order": "rev", "ks": list(ks), "tiws": [True]})
        else:
            for fix in (False, True):
                for order in ("dir", "rev"):
                    out.append({"kinds": d, "fix": fix, "order": order, "ks": list(ks), "tiws": [True, False]})
    return out


def build(d, kinds):
    os.makedirs(d)
    with open(os.path.join(d, ".sqlfluff"), "w") as f:
        f.write("[sqlfluff]\ndialect = ansi\nrules = LT01,CP01\nlarge_file_skip_byte_limit = 200\n")
    names = []
    for i, k in enumerate(kinds):
        if k == "jinja":
            sub = os.path.join(d, "j%d" % i)
            os.makedirs(sub)
            with open(os.path.join(sub, ".sqlfluff"), "w") as f:
                f.write("[sqlfluff:templater:jinja:context]\ncol = a\ntbl = t%d\n" % i)
            name = os.path.join("j%d" % i, "f%d.sql" % i)
        else:
            name = "f%d.sql" % i
        with open(os.path.join(d, name), "w") as f:
            f.write(TEXT[k])
        names.append(name)
    return names


def paths_for(names, order):
    return (".",) if order == "dir" else tuple(reversed(sorted(names)))


def observe_result(result, d, names):
    recs = {}
    for r in result.as_records():
        recs[os.path.normpath(r["filepath"])] = sorted((v["code"], v["start_line_no"], v["start_line_pos"], v["description"], bool(v.get("fixes"))) for v in r["violations"])
    disk = {n: open(os.path.join(d, n)).read() for n in names}
    st = result.stats(1, 0)
    return {"records": recs, "disk": disk, "skipped": result.files_skipped, "exit": st.get("exit code"), "files": st.get("files")}


# ------------------------------------------------------------------ child-side functions


def _serial_child(d, kinds, fix, order, tiw):
    from sqlfluff.core import FluffConfig, Linter

    names = build(d, kinds)
    os.chdir(d)
    lnt = Linter(config=FluffConfig.from_root())
    res = lnt.lint_paths(paths_for(names, order), fix=fix, apply_fixes=fix, processes=1)
    return observe_result(res, d, names)


def _history_child(d, kinds, fix, order, history, tiw):
    """Emulates one pool worker executing `history` (indices into the task list, in hand-out order)."""
    from sqlfluff.core import FluffConfig, Linter
    from sqlfluff.core.linter.discovery import paths_from_path
    from sqlfluff.core.linter.runner import MultiProcessRunner

    names = build(d, kinds)
    os.chdir(d)
    cfg = FluffConfig.from_root()
    lnt = Linter(config=cfg)
    if not tiw:
        lnt.templater.templates_in_worker = False
    fnames = []
    for p in paths_for(names, order):
        fnames += paths_from_path(p)
    runner = MultiProcessRunner(lnt, cfg, processes=2)
    blobs = [pickle.dumps(t) for t in runner.iter_partials(fnames, fix=fix)]
    MultiProcessRunner._init_global()
    out = []
    for i in history:
        task = pickle.loads(blobs[i])
        out.append(pickle.dumps(MultiProcessRunner._apply(task)))
    return {"fnames": fnames, "results": out, "main_skipped": runner.skipped_file_count}


def _real_pool_child(d, kinds, fix, order):
    from sqlfluff.core import FluffConfig, Linter

    names = build(d, kinds)
    os.chdir(d)
    lnt = Linter(config=FluffConfig.from_root())
    res = lnt.lint_paths(paths_for(names, order), fix=fix, apply_fixes=fix, processes=2)
    return observe_result(res, d, names)


# ------------------------------------------------------------------ virtual pool (main side)


class VirtualPool:
    def __init__(self, k, choices, lookup, log):
        self.k, self.choices, self.lookup, self.log = k, list(choices), lookup, log
        self.order = []

    def _choose(self, n):
        c = self.choices.pop(0) if self.choices else 0
        if c >= n:
            raise RuntimeError("schedule prefix diverged while replaying")
        self.log.append((n, c))
        return c

    def imap_unordered(self, func, iterable):
        tasks = list(iterable)  # Pool's task handler drains the iterable eagerly
        nxt = 0
        busy = {}
        hist_w = {w: [] for w in range(self.k)}
        while nxt < len(tasks) or busy:
            evs = []
            if nxt < len(tasks):
                idle = [w for w in range(self.k) if w not in busy]
                # idle workers with identical (empty) histories are interchangeable: canonical = lowest id
                seen_empty = False
                for w in idle:
                    if not hist_w[w]:
                        if seen_empty:
                            continue
                        seen_empty = True
                    evs.append(("start", w))
            evs += [("finish", w) for w in sorted(busy)]
            kind, w = evs[self._choose(len(evs))]
            if kind == "start":
                hist_w[w].append(nxt)
                busy[w] = nxt
                nxt += 1
            else:
                i = busy.pop(w)
                self.order.append(i)
                yield pickle.loads(self.lookup(tuple(hist_w[w][: hist_w[w].index(i) + 1])))

    def terminate(self):
        pass

    def join(self):
        pass

    def close(self):
        pass


def run_schedule(d, names, kinds, fix, order, k, choices, lookup, tiw):
    """Main-side replay of one schedule in directory d (fresh copy). -> (observation, log, completion order)"""
    from sqlfluff.core import FluffConfig, Linter
    from sqlfluff.core.linter import runner as runner_mod

    log = []
    pools = []

    def factory(cls, processes, initializer):
        p = VirtualPool(processes, choices, lookup, log)
        pools.append(p)
        return p

    saved = runner_mod.ParallelRunner.__dict__["_create_pool"]
    runner_mod.ParallelRunner._create_pool = classmethod(factory)
    old = os.getcwd()
    os.chdir(d)
    try:
        lnt = Linter(config=FluffConfig.from_root())
        if not tiw:
            lnt.templater.templates_in_worker = False
        res = lnt.lint_paths(paths_for(names, order), fix=fix, apply_fixes=fix, processes=k)
        obs = observe_result(res, d, names)
    finally:
        os.chdir(old)
        runner_mod.ParallelRunner._create_pool = saved
    return obs, log, (pools[0].order if pools else [])


def setup():
    hist.start_zygote()


def run_case(case):
    res = {"n": 0, "fails": [], "cls": set(), "stats": {}, "nontrivial": 0}
    kinds, fix, order = case["kinds"], case["fix"], case["order"]
    base = os.path.join(scratch_root(), "c24", case_id(case) + "-" + str(os.getpid()))
    shutil.rmtree(base, ignore_errors=True)
    os.makedirs(base)
    counter = [0]

    def fresh_dir(tag):
        counter[0] += 1
        return os.path.join(base, "%s%d" % (tag, counter[0]), "proj")

    def add(clause, features, detail):
        res["fails"].append({"clause": clause, "features": features, "detail": detail})

    try:
        serial = hist.in_child("vf.props.c24", "_serial_child", fresh_dir("serial"), kinds, fix, order, True)
        for tiw in case.get("tiws", (True, False)):
            cache = {}
            fn_holder = {}

            def lookup(history, _tiw=tiw):
                # results for a worker history are computed once, for the longest needed prefix chain
                if history not in cache:
                    out = hist.in_child("vf.props.c24", "_history_child", fresh_dir("w"), kinds, fix, order, list(history), _tiw)
                    for j in range(1, len(history) + 1):
                        cache.setdefault(tuple(history[:j]), out["results"][j - 1])
                    fn_holder["fnames"] = out["fnames"]
                return cache[history]

            for k in case["ks"]:
                if not tiw and k != 2:
                    continue
                # stateless DFS over choice prefixes
                stack = [[]]
                nsched = 0
                while stack:
                    prefix = stack.pop()
                    d = fresh_dir("m")
                    names = build(d, kinds)
                    try:
                        obs, log, comp = run_schedule(d, names, kinds, fix, order, k, prefix, lookup, tiw)
                    except Exception as e:
                        import traceback

                        add("parallel_run_raised", {"type": type(e).__name__}, {"tb": traceback.format_exc()[-600:], "schedule": prefix, "k": k})
                        shutil.rmtree(os.path.dirname(d), ignore_errors=True)
                        continue
                    shutil.rmtree(os.path.dirname(d), ignore_errors=True)
                    nsched += 1
                    res["n"] += 1
                    choices = [c for _, c in log]
                    for i in range(len(prefix), len(log)):
                        for alt in range(1, log[i][0]):
                            stack.append(choices[:i] + [alt])
                    feats = {"fix": fix, "tiw": tiw, "has_unparsable": "unparsable" in kinds, "has_oversize": "oversize" in kinds}
                    for key in ("records", "disk", "skipped", "exit"):
                        if obs[key] != serial[key]:
                            diff = obs[key]
                            if isinstance(diff, dict):
                                diff = {f: (obs[key].get(f), serial[key].get(f)) for f in set(obs[key]) | set(serial[key]) if obs[key].get(f) != serial[key].get(f)}
                            add("parallel_differs_from_serial", dict(feats, what=key), {"k": k, "schedule": choices, "completion_order": comp, "parallel_vs_serial": str(diff)[:600]})
                    if comp != sorted(comp):
                        res["nontrivial"] += 1
                    res["cls"].add(digest((k, tuple(comp), tuple(sorted((kk, str(v)) for kk, v in obs.items())))))
                res["stats"]["schedules_k%d" % k] = res["stats"].get("schedules_k%d" % k, 0) + nsched
                # determinism: replay the last schedule once more and require identical observations
                d = fresh_dir("m")
                names = build(d, kinds)
                obs2, log2, comp2 = run_schedule(d, names, kinds, fix, order, k, choices, lookup, tiw)
                shutil.rmtree(os.path.dirname(d), ignore_errors=True)
                if (obs2, comp2) != (obs, comp):
                    add("schedule_replay_nondeterministic", {}, {"k": k, "schedule": choices})
        # conformance of the virtual pool: one real spawn pool run per case family head
        if case.get("real", kinds == list(KINDS[:3]) or kinds == ["fixable", "jinja", "oversize"]):
            real = hist.in_child("vf.props.c24", "_real_pool_child", fresh_dir("real"), kinds, fix, order)
            res["n"] += 1
            for key in ("records", "disk", "skipped", "exit"):
                if real[key] != serial[key]:
                    add("real_pool_differs_from_serial", {"what": key, "fix": fix}, {"real": str(real[key])[:300], "serial": str(serial[key])[:300]})
        res["sample"] = {"kinds": kinds, "fix": fix, "order": order}
    finally:
        shutil.rmtree(base, ignore_errors=True)
    return res
