"""Scenario family and entry-point driver for the CLI-level properties (C18, C19, C22).

A scenario is a small project directory: .sqlfluff (dialect, rules, suppression, warnings,
fix_even_unparsable, runaway_limit) + f.sql = fixable statement ; error statement [noqa comment].
`observe()` pushes the same file through every entry point, each in its own fresh copy of the
directory (config caches are keyed by path; a copy is never rewritten in place).
"""

from __future__ import annotations

import itertools
import json
import os
import shutil

from vf import cli
from vf.core import case_id, scratch_root

ERR = {
    "none": None,
    "prs": "SELECT a b c FROM t",
    "unbalanced": "SELECT (a FROM t",
    "tmp_undefined": "SELECT {{ undefined_var }} FROM t",
    "tmp_fatal": "SELECT {% if %} FROM t",
    # the error sits in the rendering that is actually taken; an unreached branch gives a second, error-free variant
    "prs_var": "SELECT {% if true %}a b c{% else %}a{% endif %} FROM t",
    "unbalanced_var": "SELECT a FROM t WHERE {% if true %}(b = 1{% else %}b = 1{% endif %}",
    "tmp_var": "SELECT {% if true %}{{ undefined_var }}{% else %}a{% endif %} FROM t",
}
FIXABLE = {
    "none": "SELECT a FROM t", "lt01": "SELECT a  FROM t", "cp01": "SELECT a from t", "both": "SELECT a  from t",
    # two rendering variants needing a different number of fix passes (loop-limit axis only)
    "var2": "{% if true %}SELECT b  FROM tbl2{% else %}SELECT upper(foo), bar  from blah{% endif %}",
}
# suppression: (noqa comment on the error line, config lines, cli flags)
SUPP = {
    "none": (None, [], []),
    "noqa_prs": ("-- noqa: PRS,TMP", [], []),
    "noqa": ("-- noqa", [], []),
    "flag_ignore": (None, [], ["--ignore", "parsing,templating"]),
    "cfg_ignore": (None, ["ignore = parsing,templating"], []),
    "warn_prs": (None, ["warnings = PRS,TMP"], []),
}
WARN = {"none": [], "lt01": ["LT01"], "lt01cp01": ["LT01", "CP01"]}


def scenario_text(s):
    if "text" in s:
        return s["text"]
    lines = [FIXABLE[s["fix"]] + ";"]
    if ERR[s["err"]] is not None:
        e = ERR[s["err"]] + ";"
        c = SUPP[s["supp"]][0]
        if c:
            e += " " + c
        lines.append(e)
    return "\n".join(lines) + "\n"


def scenario_cfg(s):
    if "cfg" in s:
        return s["cfg"]
    core = ["[sqlfluff]", "dialect = ansi", "rules = LT01,CP01"]
    supp_cfg = list(SUPP[s["supp"]][1])
    warns = list(WARN[s.get("warn", "none")])
    for line in supp_cfg:
        if line.startswith("warnings = "):
            warns += line[len("warnings = "):].split(",")
        else:
            core.append(line)
    if warns:
        core.append("warnings = " + ",".join(warns))
    if s.get("feu"):
        core.append("fix_even_unparsable = True")
    if s.get("rl"):
        core.append(f"runaway_limit = {s['rl']}")
    return "\n".join(core) + "\n"


def scenarios(tier):
    out = []
    for err, fx, supp, feu in itertools.product(ERR, FIXABLE, SUPP, (False, True)):
        if (err == "none" and supp != "none") or fx == "var2":
            continue
        out.append({"err": err, "fix": fx, "supp": supp, "feu": feu})
    # warnings axis (C22) and loop limit axis (C18)
    for err, fx, warn in itertools.product(("none", "prs", "tmp_undefined"), ("lt01", "both"), ("lt01", "lt01cp01")):
        for supp in ("none", "noqa_prs"):
            if err == "none" and supp != "none":
                continue
            out.append({"err": err, "fix": fx, "supp": supp, "feu": False, "warn": warn})
    for fx in FIXABLE:
        for rl in (1, 2):
            out.append({"err": "none", "fix": fx, "supp": "none", "feu": False, "rl": rl})
    return out


def mkdir(s, tag):
    d = os.path.join(scratch_root(), "cli", case_id(s) + "-" + tag + "-" + str(os.getpid()))
    shutil.rmtree(d, ignore_errors=True)
    os.makedirs(d)
    FN = s.get("file", 'f.sql')
    with open(os.path.join(d, ".sqlfluff"), "w") as f:
        f.write(scenario_cfg(s))
    for rel, content in (s.get("extra_files") or {}).items():
        os.makedirs(os.path.dirname(os.path.join(d, rel)) or d, exist_ok=True)
        with open(os.path.join(d, rel), "w") as f:
            f.write(content)
    os.makedirs(os.path.dirname(os.path.join(d, FN)) or d, exist_ok=True)
    with open(os.path.join(d, FN), "w", newline="", encoding="utf-8") as f:
        f.write(scenario_text(s))
    return d


import contextlib


@contextlib.contextmanager
def loop_limit_spy():
    """Witness that the fix loop gave up: the linter's own 'Loop limit on fixes reached' warning (harness-side
    patch of the module logger's warning method; the list is non-empty iff it was emitted)."""
    from sqlfluff.core.linter import linter as _l

    hits = []
    orig = _l.linter_logger.warning

    def spy(msg, *a, **k):
        if "Loop limit" in str(msg):
            hits.append(str(msg))
        return orig(msg, *a, **k)

    _l.linter_logger.warning = spy
    try:
        yield hits
    finally:
        _l.linter_logger.warning = orig


def records_of(out):
    try:
        recs = json.loads(out)
    except Exception:
        return None
    res = []
    for r in recs:
        for v in r["violations"]:
            res.append((v["code"], v["start_line_no"], v["start_line_pos"], v["description"], bool(v.get("warning")), bool(v.get("fixes"))))
    return sorted(res)


def api_records(lf):
    out = []
    for v in lf.get_violations(filter_warning=False):
        d = v.to_dict()
        out.append((d["code"], d["start_line_no"], d["start_line_pos"], d["description"], bool(d.get("warning")), bool(d.get("fixes"))))
    return sorted(out)


def observe(s, want=("lint", "fix", "format", "api", "lint_paths")):
    """Run the scenario through the entry points. -> dict of observations."""
    text = scenario_text(s)
    flags = list(SUPP[s["supp"]][2])
    FN = s.get("file", 'f.sql')
    obs = {"text": text}
    if "lint" in want:
        d = mkdir(s, "lp")
        rc, out, err, exc = cli.run(["lint", FN, "--format", "json"] + flags, cwd=d)
        obs["lint_path"] = {"rc": rc, "records": records_of(out), "exc": exc}
        d = mkdir(s, "ls")
        rc, out, err, exc = cli.run(["lint", "-", "--stdin-filename", FN, "--format", "json"] + flags, input=text, cwd=d)
        obs["lint_stdin"] = {"rc": rc, "records": records_of(out), "exc": exc}
    for cmd in ("fix", "format"):
        if cmd not in want:
            continue
        d = mkdir(s, cmd[0] + "p")
        with loop_limit_spy() as hit:
            rc, out, err, exc = cli.run([cmd, FN] + flags, cwd=d)
        obs[cmd + "_path"] = {"rc": rc, "text": open(os.path.join(d, FN), newline="", encoding="utf-8", errors="surrogateescape").read(), "exc": exc, "loop_limit": bool(hit)}
        d = mkdir(s, cmd[0] + "s")
        with loop_limit_spy() as hit:
            rc, out, err, exc = cli.run([cmd, "-", "--stdin-filename", FN] + flags, input=text, cwd=d)
        obs[cmd + "_stdin"] = {"rc": rc, "text": out, "exc": exc, "file_after": open(os.path.join(d, FN), newline="", encoding="utf-8", errors="surrogateescape").read(), "loop_limit": bool(hit)}
    if "api" in want or "lint_paths" in want:
        from sqlfluff.core import FluffConfig, Linter

        ov = {}
        if flags:
            ov["ignore"] = flags[1]
        if "api" in want:
            d = mkdir(s, "api")
            old = os.getcwd()
            os.chdir(d)
            try:
                cfg = FluffConfig.from_path(FN, overrides=ov or None)
                lnt = Linter(config=cfg)
                lf = lnt.lint_string(text, fname=FN)
                obs["lint_api"] = {"records": api_records(lf)}
                import sqlfluff

                try:
                    obs["fix_simple_api"] = {"text": sqlfluff.fix(text, config_path=os.path.join(d, ".sqlfluff"), fix_even_unparsable=bool(s.get("feu")) or None)}
                except Exception as e:
                    obs["fix_simple_api"] = {"exc": repr(e)[:300]}
                try:
                    obs["lint_simple_api"] = {"records": sorted((v["code"], v["start_line_no"], v["start_line_pos"], v["description"], bool(v.get("warning")), bool(v.get("fixes"))) for v in sqlfluff.lint(text, config_path=os.path.join(d, ".sqlfluff")))}
                except Exception as e:
                    obs["lint_simple_api"] = {"exc": repr(e)[:300]}
            finally:
                os.chdir(old)
        if "lint_paths" in want:
            d = mkdir(s, "lps")
            old = os.getcwd()
            os.chdir(d)
            try:
                cfg = FluffConfig.from_path(FN, overrides=ov or None)
                lnt = Linter(config=cfg)
                with loop_limit_spy() as hit:
                    res = lnt.lint_paths((FN,), fix=True, apply_fixes=True, fix_even_unparsable=bool(s.get("feu")))
                obs["fix_lint_paths"] = {"text": open(FN, newline="", encoding="utf-8", errors="surrogateescape").read(), "loop_limit": bool(hit)}
            except Exception as e:
                obs["fix_lint_paths"] = {"exc": repr(e)[:300]}
            finally:
                os.chdir(old)
    shutil.rmtree(os.path.join(scratch_root(), "cli"), ignore_errors=True) if False else None
    return obs


def baseline(s):
    """Unsuppressed, warning-free lint of the same text: what violations exist at all."""
    from vf import sq

    text = scenario_text(s).replace(" -- noqa: PRS,TMP", "").replace(" -- noqa", "")
    lnt = sq.linter("ansi", "jinja", rules="LT01,CP01", disable_noqa=True)
    lf = lnt.lint_string(text)
    return [(v.rule_code(), v.line_no, bool(getattr(v, "fixes", None))) for v in lf.violations]


def cleanup_case(s):
    base = os.path.join(scratch_root(), "cli")
    if os.path.isdir(base):
        pre = case_id(s) + "-"
        for n in os.listdir(base):
            if n.startswith(pre) and n.endswith("-" + str(os.getpid())):
                shutil.rmtree(os.path.join(base, n), ignore_errors=True)
