"""C16 Fixes preserve query results (differential against SQLite)."""

from __future__ import annotations

import sqlite3

from vf import corpus, sq
from vf.core import digest
from vf.props import fixfam

LEVEL = "exploration"
RULE = (
    "every executable statement of G(k) with every single deviation D(1;WKM) plus the operator list, plus the scoping family (correlated "
    "sub-queries nested <= 3 levels via EXISTS / IN / scalar comparison x every choice of enclosing alias referred to at each level x "
    "alias syntax x bare / inside a CTE: 936 queries) and the join family (6 join kinds x predicate in ON / USING / WHERE only / absent x 3 select lists x upper / lower case keywords x aliased tables), dialect sqlite, all rules "
    "except ST06 (column reordering) and CV05 (NULL comparison rewrite); executed in stdlib SQLite before and after fixing on "
    "three fixed database instances (empty; NULLs + duplicates; distinct rows). Non-trivial = original executes on every "
    "instance, the fix changed the text, and at least one instance returns rows; distinct inputs by construction."
)
ASSUMPTIONS = [
    "three fixed table instances instead of random contents (bounded exhaustive, not sampled)",
    "row multisets compared; ordered comparison only when the query has ORDER BY",
]
BOUND = {"quick": "G(1)xD(1;WKM)+glue", "thorough": "G(2)xD(1;WKM)+G(3)"}
FLOOR = {"quick": 500, "thorough": 5000}
CHUNK = 1

SCHEMA = "create table t(a,b); create table u(a,c); create table t1(a); create table t2(a); create table foo(a,b);"
INSTANCES = [
    "",
    "insert into t values (1,2),(1,2),(null,3),(2,null); insert into u values (1,'x'),(2,null),(null,'z'); insert into t1 values (1),(2); insert into t2 values (2),(3);",
    "insert into t values (1,10),(2,20),(3,30); insert into u values (1,'x'),(3,'y'),(4,'z'); insert into t1 values (1); insert into t2 values (1);",
]
_CON = []


def setup():
    for ins in INSTANCES:
        con = sqlite3.connect(":memory:")
        con.create_function("f", 1, lambda x: x)
        con.executescript(SCHEMA + ins)
        _CON.append(con)


def cases(tier):
    base = corpus.G(1) if tier == "quick" else corpus.G(2)
    ss = set(corpus.D(base, 1, "WKM")) | set(fixfam.GLUE)
    if tier == "thorough":
        ss |= set(corpus.G(3))
    ss = sorted((s for s in ss if s.lstrip().upper().startswith(("SELECT", "WITH"))), key=lambda s: (len(s), s))
    sc = scope_queries() + join_queries()
    return [{"k": "q", "ss": ss[i : i + 16]} for i in range(0, len(ss), 16)] + [{"k": "q", "ss": sc[i : i + 16]} for i in range(0, len(sc), 16)]


def join_queries():
    """Join family: every join kind x where the join predicate lives (ON / USING / only in WHERE / nowhere) x select
    list x keyword case (the same statement in upper and in lower case) x an extra WHERE conjunct."""
    out = set()
    kinds = ["JOIN", "INNER JOIN", "LEFT JOIN", "LEFT OUTER JOIN", "CROSS JOIN", ","]
    for jk in kinds:
        for cond in ("ON t.a = u.a", "USING (a)", "WHERE t.a = u.a", "WHERE t.a = u.a AND u.c IS NOT NULL", ""):
            if jk == "," and cond.startswith(("ON", "USING")):
                continue
            if jk == "CROSS JOIN" and cond.startswith(("ON", "USING")):
                continue
            for sel in ("t.a, u.c", "*", "t.b, u.c"):
                q = "SELECT %s FROM t %s u %s" % (sel, jk, cond)
                q = " ".join(q.split()) + "\n"
                out.add(q)
                out.add(q.lower())
                out.add(q.replace(" u ", " AS u2 ").replace("u.", "u2.").replace("FROM t ", "FROM t AS t9 ").replace("t.", "t9.").replace("AS u2", "u AS u2"))
    return sorted(out, key=lambda s: (len(s), s))


def scope_queries():
    """Scoping family: correlated sub-queries nested up to 3 levels (EXISTS / IN / scalar comparison), every
    choice of which enclosing level's alias each level refers to, explicit and implicit alias syntax, the outer
    query using its alias itself or not, bare and wrapped in a CTE."""
    conn = {
        "exists": lambda inner, lhs: "EXISTS (%s)" % inner,
        "in": lambda inner, lhs: "%s IN (%s)" % (lhs, inner),
        "scalar": lambda inner, lhs: "%s >= (%s)" % (lhs, inner),
    }
    out = set()
    for askw in (" AS ", " "):
        for outer_sel in ("x.a", "a"):
            for c1 in conn:
                for c2 in list(conn) + [None]:
                    for r2 in ("y.a", "x.a", "x.b"):
                        for r3 in ("z.a", "y.a", "x.a", "x.b") if c2 else (None,):
                            w2 = "y.a = " + r2
                            if c2:
                                inner3 = "SELECT %s FROM t1%sz WHERE z.a >= %s" % ("max(z.a)" if c2 == "scalar" else "z.a", askw, r3)
                                w2 += " AND " + conn[c2](inner3, "y.a")
                            inner2 = "SELECT %s FROM u%sy WHERE %s" % ("max(y.a)" if c1 == "scalar" else "y.a", askw, w2)
                            q = "SELECT %s FROM t%sx WHERE %s" % (outer_sel, askw, conn[c1](inner2, "x.a" if outer_sel == "x.a" else "a"))
                            out.add(q + "\n")
                            out.add("WITH c AS (%s) SELECT a FROM c\n" % q)
    return sorted(out, key=lambda s: (len(s), s))


def execute(con, sql):
    try:
        cur = con.execute(sql)
        rows = cur.fetchall()
        return ("ok", rows)
    except sqlite3.Warning:
        return ("multi", None)
    except Exception as e:
        return ("err", str(e)[:80])


def run_case(case):
    res = {"n": 0, "fails": [], "cls": set(), "stats": {}, "nontrivial": 0}
    lnt = sq.linter("sqlite", "raw", exclude_rules="ST06,CV05")
    for text in case["ss"]:
        res["n"] += 1
        one = {"k": "q", "ss": [text]}
        before = [execute(c, text) for c in _CON]
        if any(b[0] != "ok" for b in before):
            fixfam.bump(res, "not_executable")
            continue
        try:
            lf, fixed = fixfam.run_fix(lnt, text)
        except Exception:
            fixfam.bump(res, "fix_exception")
            continue
        if fixed is None or fixed == text:
            continue
        ordered = "ORDER BY" in text.upper()
        for i, c in enumerate(_CON):
            after = execute(c, fixed)
            if after[0] != "ok":
                res["fails"].append({"clause": "fixed_not_executable", "features": {"new_double_dash": ("--" in fixed and "--" not in text)}, "detail": {"fixed": fixed[:300], "err": after[1], "instance": i}, "case": one})
                break
            a, b = before[i][1], after[1]
            same = (a == b) if ordered else (sorted(map(repr, a)) == sorted(map(repr, b)))
            if not same:
                res["fails"].append({"clause": "rows_differ", "features": {"using_with_star": ("USING" in text.upper() and "*" in text)}, "detail": {"fixed": fixed[:300], "before": repr(a)[:200], "after": repr(b)[:200], "instance": i}, "case": one})
                break
        if any(b[1] for b in before):
            res["nontrivial"] += 1
            res.setdefault("sample", one)
            res["cls"].add(digest(tuple(repr(b[1]) for b in before)))
    return res
