"""C06 Parsing is deterministic and unaffected by parser optimisations.

Part A (inputs): every input parsed 4 ways -- parse cache on/off x first-token pruning on/off --
plus a second time in the same process; canonical trees must be identical.
Part B (histories, engine E2): every sequence of <= depth parse operations over 8 files in one
process; each op's tree must equal the tree a fresh process produces.
"""

from __future__ import annotations

import contextlib
import itertools

from vf import corpus, sq
from vf.core import digest
from vf.props import parsefam
from vf import hist

LEVEL = "exploration"
RULE = (
    "A: parse family (Sigma_t24^<=k ansi, G(1)xD(1)+G(2), Sigma_t^<=2 + G(1) x 27 dialects, fixtures <= bound in own dialect) x "
    "{cache on/off} x {pruning on/off} + repeat; canonical tree = types, raws, source+templated slices, metas, and parse violations. "
    "B: all histories of <= depth parse operations over 8 files (two dialects, two Jinja files with blocks at identical offsets, "
    "one leaving the block stack non-empty, one with an unterminated bracket), each executed in a child forked from a pristine "
    "zygote; every op result compared with its fresh-process result. Non-trivial = tree with >= 3 nodes (A) / history of length >= 2 (B)."
)
ASSUMPTIONS = [
    "cache switched off by making ParseContext.check_parse_cache return None; pruning switched off by replacing match_algorithms.prune_options with identity (harness-side patch)",
    "next_match's simple-hint maps have no off switch and are only indirectly compared",
]
BOUND = {"quick": "A: parse family quick; B: depth <= 2 complete (8+64 histories) + depth 3 from non-pristine fingerprints", "thorough": "A: parse family thorough; B: depth <= 3 complete (584 histories)"}
FLOOR = {"quick": 15000, "thorough": 80000}
CHUNK = 2
TIMEOUT = 900  # per case; fresh child processes are slow when the machine is loaded

FILES = [
    ("ansi", None, "SELECT a, b FROM t WHERE a = 1\n"),
    ("ansi", None, "-- sqlfluff:dialect:tsql\nSELECT [a] FROM t\n"),
    ("ansi", None, "-- sqlfluff:dialect:postgres\nSELECT a::int FROM t\n"),
    ("ansi", "jinja", "SELECT {% if c %}a{% else %}b{% endif %} FROM t\n"),
    ("ansi", "jinja", "SELECT {% if c %}1{% else %}b + 1{% endif %} FROM u\n"),
    ("ansi", "jinja", "SELECT a {% for x in [1, 2] %}, {{ x }}{% endfor %} FROM t {% if c %}\n"),
    ("ansi", None, "SELECT (a, (b FROM t\n"),
    ("ansi", None, "SELECT a FROM t WHERE a IN (SELECT a FROM u WHERE b = 1)\n"),
]


def cases(tier):
    out = parsefam.parse_cases(tier, jinja=False)
    depth = 2 if tier == "quick" else 3
    n = len(FILES)
    for i in range(n):
        # one case = all histories (<= depth) starting with file i
        out.append({"k": "hist", "first": i, "depth": depth})
    # Part C: two statements forced to collide in ONE parse (same ParseContext, same first keyword)
    for d, first, kinds, stmts in pair_groups(80 if tier == "quick" else 160):
        for a in kinds:
            out.append({"k": "pairs", "d": d, "a": a, "bs": stmts})
    # Part D: the first-token hints that drive pruning, on EVERY reachable grammar node of every dialect,
    # must not depend on which other nodes were asked first in the same parse context
    for d in corpus.dialects():
        out.append({"k": "hints", "d": d})
    # Part E: ONE sqlfluff.core.Parser object (public API) used for a sequence of parses; each result must
    # equal the result of a fresh Parser. Inputs collide on purpose: same first token, same positions, same
    # token count; and files that need exactly / one more than max_parse_depth levels.
    for cfgk in ("default", "tight"):
        for first in range(len(SHARED_INPUTS)):
            out.append({"k": "shared", "cfg": cfgk, "first": first, "depth": 2 if tier == "quick" else 3})
    return out


SHARED_INPUTS = [
    "SELECT 1 + 2\n", "SELECT 1 ) 2\n", "SELECT 1 , 2\n", "SELECT a b c\n", "SELECT ( + 2\n", "SELECT 1 + (\n",
    "SELECT a FROM t\n", "SELECT a FROM (\n", "SELECT ) FROM t\n", "INSERT a FROM t\n",
    "SELECT 1\n", "SELECT (1)\n", "SELECT ((1))\n", "SELECT (((1)))\n", "SELECT ((((1))))\n", "SELECT ((1)\n",
    "SELECT a FROM t WHERE a IN (SELECT a FROM u)\n", "SELECT a FROM t WHERE a IN (SELECT a FROM u;\n",
]
_SHARED = {}


def _shared_cfg(cfgk):
    """'tight': max_parse_depth = the smallest value at which 'SELECT ((1))' still parses, so the list holds
    files that need exactly the limit, less than it, and more than it (rejected)."""
    from sqlfluff.core import FluffConfig

    if cfgk in _SHARED:
        return _SHARED[cfgk]
    if cfgk == "default":
        cfg = FluffConfig(overrides={"dialect": "ansi"})
    else:
        cfg = None
        for dpt in range(5, 200):
            c = FluffConfig(overrides={"dialect": "ansi", "max_parse_depth": dpt})
            if _shared_parse(c, None, "SELECT ((1))\n")[0] != "EXC":
                cfg = c
                break
        assert cfg is not None, "no max_parse_depth below 200 parses SELECT ((1))"
        assert _shared_parse(cfg, None, "SELECT (((1)))\n")[0] == "EXC", "tight limit does not reject the deeper file"
    _SHARED[cfgk] = cfg
    return cfg


def _shared_parse(cfg, parser, text):
    from sqlfluff.core import Lexer, Parser

    toks, _ = Lexer(config=cfg).lex(text)
    parser = parser or Parser(config=cfg)
    try:
        tree = parser.parse(tuple(toks))
    except Exception as e:
        return ("EXC", type(e).__name__, str(e)[:120])
    return ("TREE", sq.tree_sig(tree) if tree is not None else None)


def run_shared(case, res):
    from sqlfluff.core import Parser

    cfg = _shared_cfg(case["cfg"])
    n = len(SHARED_INPUTS)
    fresh = [_shared_parse(cfg, None, t) for t in SHARED_INPUTS]
    if case["cfg"] == "tight":
        res["stats"]["rejected_inputs"] = sum(1 for f in fresh if f[0] == "EXC")
    seqs = [tuple(case["seq"])] if "seq" in case else [(case["first"],) + rest for L in range(2, case["depth"] + 1) for rest in itertools.product(range(n), repeat=L - 1)]
    for seq in seqs:
        res["n"] += 1
        parser = Parser(config=cfg)
        for pos, i in enumerate(seq):
            got = _shared_parse(cfg, parser, SHARED_INPUTS[i])
            if got != fresh[i]:
                res["fails"].append(
                    {
                        "clause": "shared_parser_result_differs_from_fresh",
                        "features": {"cfg": case["cfg"], "fresh": fresh[i][0], "shared": got[0]},
                        "detail": {"history": [SHARED_INPUTS[j] for j in seq], "position": pos, "diff": first_diff(fresh[i], got)},
                        "case": {"k": "shared", "cfg": case["cfg"], "seq": list(seq)},
                    }
                )
                break
        res["nontrivial"] += 1
        res["cls"].add(digest((case["cfg"], seq)))
    res.setdefault("sample", {"k": "shared", "cfg": case["cfg"], "seq": list(seqs[0])})


def run_hints(case, res):
    from sqlfluff.core.parser.context import ParseContext
    from vf.props import c29

    d = case["d"]
    c29.walk(d, lambda *a: None, {"stats": {}})
    dialect, nodes = c29.LAST_NODES[d]
    nodes = [n for n in nodes if not (isinstance(n, type) and getattr(n, "match_grammar", None) is None)]

    def hints(order):
        ctx = ParseContext(dialect=dialect, max_parse_depth=255)
        out = {}
        for n in order:
            try:
                h = n.simple(parse_context=ctx, crumbs=None)
                out[id(n)] = None if h is None else (tuple(sorted(h[0])), tuple(sorted(h[1])))
            except Exception as e:
                out[id(n)] = ("EXC", type(e).__name__)
        return out

    fwd = hints(nodes)
    rev = hints(list(reversed(nodes)))
    # and each node asked alone in a pristine context for the nodes where the two orders disagree
    for n in nodes:
        res["n"] += 1
        a, b = fwd[id(n)], rev[id(n)]
        if a != b:
            res["fails"].append(
                {
                    "clause": "first_token_hint_depends_on_evaluation_order",
                    "features": {"dialect": d},
                    "detail": {"node": repr(n)[:120], "forward": str(a)[:200], "reverse": str(b)[:200]},
                    "case": {"k": "hints", "d": d},
                }
            )
        if a is not None and a[0] != "EXC":
            res["nontrivial"] += 1
    res["cls"].add(digest((d, len(nodes))))
    res["sample"] = {"k": "hints", "d": d, "nodes": len(nodes)}


_PG = {}


def pair_groups(maxlen):
    """-> [(dialect, first keyword, [representative statement per 2-keyword kind], [all statements])]
    from the dialect fixtures, statements split at ';' line ends, both leading words upper-case keywords."""
    import collections
    import re

    if maxlen in _PG:
        return _PG[maxlen]
    g = collections.defaultdict(lambda: (dict(), set()))
    for d, p, t in corpus.fixtures(10**9):
        for st in re.split(r";\s*\n", t):
            st = st.strip().rstrip(";").strip()
            if not st or len(st) > maxlen or ";" in st or "--" in st or "/*" in st:
                continue
            ws = st.split()
            if len(ws) < 3 or not (ws[0].isalpha() and ws[0].isupper() and ws[1].isalpha() and ws[1].isupper()):
                continue
            kinds, allst = g[(d, ws[0])]
            k2 = (ws[0], ws[1])
            if k2 not in kinds or (len(st), st) < (len(kinds[k2]), kinds[k2]):
                kinds[k2] = st
            allst.add(st)
    out = []
    for (d, first), (kinds, allst) in sorted(g.items()):
        if len(kinds) >= 2:
            out.append((d, first, sorted(kinds.values()), sorted(allst, key=lambda s: (len(s), s))))
    _PG[maxlen] = out
    return out


def stmt_shapes(lnt, text):
    """-> (list of type-shapes of the top-level statements, has_parse_error)"""
    p = lnt.parse_string(text)
    if not p.parsed_variants or p.parsed_variants[0].tree is None:
        return None, True
    tree = p.parsed_variants[0].tree
    shapes = [sq.type_shape(s) for s in tree.recursive_crawl("statement", recurse_into=False)]
    return shapes, bool([v for v in p.violations if v.rule_code() == "PRS"])


_ALONE = {}


def run_pairs(case, res):
    d, a = case["d"], case["a"]
    lnt = sq.linter(d, "raw")

    def alone(st):
        key = (d, st)
        if key not in _ALONE:
            _ALONE[key] = stmt_shapes(lnt, st + ";\n")
        return _ALONE[key]

    sa, ea = alone(a)
    for b in case["bs"]:
        if b == a or ("only" in case and case["only"] != b):
            continue
        res["n"] += 1
        sb, eb = alone(b)
        if ea or eb or not sa or not sb or len(sa) != 1 or len(sb) != 1:
            continue  # only statements that parse cleanly on their own as exactly one statement
        sp, ep = stmt_shapes(lnt, a + ";\n" + b + ";\n")
        one = {"k": "pairs", "d": d, "a": a, "bs": [b], "only": b}
        if sp is None or len(sp) != 2 or sp[0] != sa[0]:
            # the first statement legitimately takes what follows as its body (CREATE PROC ... AS, script
            # bodies up to '/'): the pair is not two independent statements, nothing to compare
            res["stats"]["pair_not_two_statements"] = res["stats"].get("pair_not_two_statements", 0) + 1
            continue
        if sp[1] != sb[0] or ep:
            which = "second"
            res["fails"].append(
                {
                    "clause": "statement_parses_differently_after_another",
                    "features": {"which": which, "dialect": d},
                    "detail": {"a": a, "b": b, "prs_in_pair": ep, "n_statements": None if sp is None else len(sp)},
                    "case": one,
                }
            )
        res["nontrivial"] += 1
        res.setdefault("sample", one)
        res["cls"].add(digest((d, a, b)))


@contextlib.contextmanager
def toggles(cache: bool, prune: bool):
    from sqlfluff.core.parser import context, match_algorithms

    saved = (context.ParseContext.check_parse_cache, match_algorithms.prune_options)
    try:
        if not cache:
            context.ParseContext.check_parse_cache = lambda self, loc_key, matcher_key: None
        if not prune:
            match_algorithms.prune_options = lambda options, segments, parse_context, start_idx=0: list(options)
        yield
    finally:
        context.ParseContext.check_parse_cache, match_algorithms.prune_options = saved


def canon(parsed):
    out = []
    for v in parsed.parsed_variants:
        out.append(sq.tree_sig(v.tree) if v.tree is not None else None)
    viol = tuple(sorted((v.rule_code(), v.line_no, v.line_pos, v.desc()) for v in parsed.violations))
    return (tuple(out), viol)


def setup():
    hist.start_zygote()


def _parse_seq(seq):
    return [_parse_file(i) for i in seq]


def _parse_file(i, ctx=True):
    d, tpl, text = FILES[i]
    lnt = sq.linter(d, tpl, configs=sq.jinja_ctx_configs({"c": ctx}) if tpl else None)
    return digest(canon(lnt.parse_string(text)))


def run_hist(case, res):
    n = len(FILES)
    depth = case["depth"]
    fresh = {}
    for i in range(n):
        fresh[i] = hist.in_child("vf.props.c06", "_parse_file", i)
    seqs = []
    for L in range(1, depth + 1):
        for rest in itertools.product(range(n), repeat=L - 1):
            seqs.append((case["first"],) + rest)
    for seq in seqs:
        res["n"] += 1
        got = hist.in_child("vf.props.c06", "_parse_seq", seq)
        for pos, (i, g) in enumerate(zip(seq, got)):
            if g != fresh[i]:
                res["fails"].append(
                    {
                        "clause": "history_dependent_tree",
                        "features": {"file": i},
                        "detail": {"history": list(seq), "position": pos},
                        "case": {"k": "hist1", "seq": list(seq)},
                    }
                )
                break
        if len(seq) >= 2:
            res["nontrivial"] += 1
            res.setdefault("sample", {"k": "hist1", "seq": list(seq)})
        res["cls"].add(digest(tuple(got)))


def run_case(case):
    res = {"n": 0, "fails": [], "cls": set(), "stats": {}, "nontrivial": 0}
    if case["k"] == "hist":
        run_hist(case, res)
        return res
    if case["k"] == "pairs":
        run_pairs(case, res)
        return res
    if case["k"] == "hints":
        run_hints(case, res)
        return res
    if case["k"] == "shared":
        run_shared(case, res)
        return res
    if case["k"] == "hist1":
        seq = case["seq"]
        res["n"] = 1
        fresh = {i: hist.in_child("vf.props.c06", "_parse_file", i) for i in set(seq)}
        got = hist.in_child("vf.props.c06", "_parse_seq", seq)
        for pos, (i, g) in enumerate(zip(seq, got)):
            if g != fresh[i]:
                res["fails"].append({"clause": "history_dependent_tree", "features": {"file": i}, "detail": {"history": seq, "position": pos}})
                break
        return res
    for one, d, tpl, ci, text in parsefam.expand(case):
        res["n"] += 1
        lnt = parsefam.get_linter(d, tpl, ci)

        def add(clause, features, detail, _one=one):
            res["fails"].append({"clause": clause, "features": features, "detail": detail, "case": _one})

        obs = {}
        try:
            for cache, prune in ((True, True), (False, True), (True, False), (False, False)):
                with toggles(cache, prune):
                    obs[(cache, prune)] = canon(lnt.parse_string(text))
            again = canon(lnt.parse_string(text))
        except Exception as e:
            res["stats"]["exception"] = res["stats"].get("exception", 0) + 1
            continue
        base = obs[(True, True)]
        if again != base:
            add("nondeterministic_repeat", {}, {})
        for (cache, prune), o in obs.items():
            if o != base:
                add("optimisation_dependent", {"cache": cache, "prune": prune}, {"diff": first_diff(base, o)})
        t0 = base[0][0] if base[0] else None
        if t0 is not None and len(t0) == 3 and len(t0[2]) >= 2:
            res["nontrivial"] += 1
            res.setdefault("sample", one)
        res["cls"].add(digest(base))
    return res


def first_diff(a, b, path=()):
    if a == b:
        return None
    if isinstance(a, tuple) and isinstance(b, tuple) and len(a) == len(b):
        for i, (x, y) in enumerate(zip(a, b)):
            d = first_diff(x, y, path + (i,))
            if d:
                return d
    return {"path": list(path)[:12], "a": repr(a)[:160], "b": repr(b)[:160]}
