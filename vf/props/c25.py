"""C25 File discovery honours ignore files regardless of path spelling (discovery model + full replay)."""

from __future__ import annotations

import itertools
import os
import shutil

from vf.core import case_id, digest, scratch_root

LEVEL = "model_checking"
RULE = (
    "tree root/{f.sql, g.txt, a/{x.sql, b/{y.sql}}}; ignore carriers {.sqlfluffignore, .sqlfluff ignore_paths, pyproject.toml ignore_paths} "
    "placed in any of root, a, a/b holding one pattern from {y.sql, *.sql, b/, b/y.sql, /x.sql, **/y.sql, a/b/} (quick: <= 1 carrier, thorough: "
    "<= 2); target in {root, a, a/b, a/b/y.sql} spelled relative, './'-prefixed, absolute, and via '..'; working directory in {root, a}; "
    "extensions {.sql} and {.sql,.txt}; ignore files honoured / disregarded. Seam: paths_from_path(path, working_path=cwd) with the process "
    "actually chdir'ed to cwd. Model: ancestor chain from commonpath(cwd, path) down to the file's directory, pathspec (gitwildmatch) itself "
    "as the trusted matcher relative to each carrier's directory, directory patterns prune. Oracle: result == model for every spelling, "
    "and identical across spellings of one target. Every model case is replayed. Non-trivial = the model ignores at least one file."
)
ASSUMPTIONS = ["pathspec is the trusted gitignore matcher (no negated patterns: pathspec and git differ there)", "POSIX paths"]
BOUND = {"quick": "64 carrier placements x 2 cwds x 4 targets x all spellings x 2 ext sets x 2 flags", "thorough": "+ all pairs of carriers (2016 placements)"}
FLOOR = {"quick": 400, "thorough": 10000}
CHUNK = 1

DIRS = [".", "a", "a/b"]
KINDS = ["ignore", "cfg", "toml"]
PATS = ["y.sql", "*.sql", "b/", "b/y.sql", "/x.sql", "**/y.sql", "a/b/"]
# 'ab' is a sibling of 'a' whose NAME starts with 'a' (string-prefix vs path-component comparisons)
FILES = ["f.sql", "g.txt", "a/x.sql", "a/b/y.sql", "ab/z.sql", "ab/y.sql"]


class OrderedOs:
    """os stand-in for the discovery module: os.walk with a controlled listing order. Directory listing
    order is environment nondeterminism (it depends on the filesystem); both orders are explored."""

    def __init__(self, reverse):
        self._rev = reverse

    def walk(self, top, topdown=True, **kw):
        for d, subdirs, files in os.walk(top, topdown=topdown, **kw):
            subdirs.sort(reverse=self._rev)
            files.sort(reverse=self._rev)
            yield d, subdirs, files

    def __getattr__(self, name):
        return getattr(os, name)


def cases(tier):
    singles = [(d, k, p) for d in DIRS for k in KINDS for p in PATS]
    placements = [()] + [(c,) for c in singles]
    if tier == "thorough":
        placements += [(a, b) for a, b in itertools.combinations(singles, 2) if (a[0], a[1]) != (b[0], b[1])]
    out = []
    for pl in placements:
        for cwd in (".", "a"):
            out.append({"k": "tree", "carriers": [list(c) for c in pl], "cwd": cwd})
    return out


def build(case_dir, carriers):
    os.makedirs(os.path.join(case_dir, "a", "b"))
    os.makedirs(os.path.join(case_dir, "ab"))
    for p in FILES:
        with open(os.path.join(case_dir, p), "w") as f:
            f.write("select 1\n")
    for d, kind, pat in carriers:
        dd = os.path.join(case_dir, d)
        if kind == "ignore":
            open(os.path.join(dd, ".sqlfluffignore"), "w").write(pat + "\n")
        elif kind == "cfg":
            open(os.path.join(dd, ".sqlfluff"), "w").write("[sqlfluff]\nignore_paths = %s\n" % pat)
        else:
            open(os.path.join(dd, "pyproject.toml"), "w").write('[tool.sqlfluff.core]\nignore_paths = ["%s"]\n' % pat)


def model(case_dir, cwd_abs, path, carriers, exts, honour):
    import pathspec

    P = os.path.normpath(os.path.join(cwd_abs, path))
    if os.path.isfile(P):
        cand = [P]
        pdir = os.path.dirname(P)
    else:
        cand = []
        for dp, dn, fn in os.walk(P):
            for f in fn:
                if not f.startswith(".") and f != "pyproject.toml":
                    cand.append(os.path.join(dp, f))
        pdir = P
    top = os.path.commonpath([cwd_abs, pdir])
    out = []
    for f in cand:
        if not f.lower().endswith(tuple(exts)):
            continue
        ignored = False
        if honour:
            chain = []
            d = os.path.dirname(f)
            while True:
                chain.append(d)
                if d == top or len(d) <= len(top):
                    break
                d = os.path.dirname(d)
            for d in chain:
                rel_d = os.path.normpath(os.path.relpath(d, case_dir))
                for cd, kind, pat in carriers:
                    if os.path.normpath(cd) == rel_d:
                        spec = pathspec.PathSpec.from_lines("gitwildmatch", [pat])
                        rel = os.path.relpath(f, d)
                        if spec.match_file(rel):
                            ignored = True
                        parts = rel.split(os.sep)
                        for i in range(1, len(parts)):
                            if spec.match_file(os.path.join(*parts[:i], "*")):
                                ignored = True
        if not ignored:
            out.append(os.path.relpath(f, case_dir))
    return sorted(out)


def run_case(case):
    from sqlfluff.core.linter.discovery import paths_from_path

    res = {"n": 0, "fails": [], "cls": set(), "stats": {}, "nontrivial": 0}
    carriers = [tuple(c) for c in case["carriers"]]
    base = os.path.join(scratch_root(), "c25", case_id(case) + "-" + str(os.getpid()))
    shutil.rmtree(base, ignore_errors=True)
    cd = os.path.join(base, "root")
    build(cd, carriers)
    cwd = os.path.normpath(os.path.join(cd, case["cwd"]))
    old = os.getcwd()
    os.chdir(cwd)
    try:
        targets = {"root": cd, "a": os.path.join(cd, "a"), "a/b": os.path.join(cd, "a/b"), "a/b/y.sql": os.path.join(cd, "a/b/y.sql")}
        for tname, tabs in targets.items():
            rel = os.path.relpath(tabs, cwd)
            sps = [rel, tabs]
            if not rel.startswith(".."):
                sps.append("./" + rel if rel != "." else "./")
            if case["cwd"] == "a" and tname in ("a", "a/b", "a/b/y.sql"):
                # spell through the parent: ../a/...
                sps.append(os.path.join("..", "a", os.path.relpath(tabs, os.path.join(cd, "a"))) if tname != "a" else os.path.join("..", "a"))
            sps = list(dict.fromkeys(sps))
            for exts in ((".sql",), (".sql", ".txt")):
                for honour in (True, False):
                    results = {}
                    want = model(cd, cwd, rel, carriers, exts, honour)
                    for sp, rev in [(s_, r_) for s_ in sps for r_ in (False, True)]:
                        res["n"] += 1
                        from sqlfluff.core.linter import discovery as _disc

                        _disc.os = OrderedOs(rev)
                        try:
                            got = sorted(os.path.relpath(os.path.abspath(p), cd) for p in paths_from_path(sp, working_path=cwd, target_file_exts=exts, ignore_files=honour))
                        except Exception as e:
                            got = "EXC " + type(e).__name__
                        finally:
                            _disc.os = os
                        results[(sp, rev)] = got
                        if got != want:
                            kind = "absolute" if os.path.isabs(sp) else ("dotdot" if sp.startswith("..") else "relative")
                            over = isinstance(got, list) and len(got) > len(want)
                            res["fails"].append(
                                {
                                    "clause": "discovery_vs_model",
                                    "features": {"spelling": kind, "returns_ignored_file": over, "cwd": case["cwd"], "target_is_file": tname.endswith(".sql")},
                                    "detail": {"carriers": carriers, "path": sp if not os.path.isabs(sp) else "<abs>/" + os.path.relpath(sp, cd), "got": got, "want": want, "exts": exts, "honour": honour},
                                }
                            )
                    vals = list(results.values())
                    if any(v != vals[0] for v in vals):
                        res["fails"].append(
                            {
                                "clause": "spelling_dependent",
                                "features": {"cwd": case["cwd"], "target": tname},
                                "detail": {"carriers": carriers, "results": {((k[0] if not os.path.isabs(k[0]) else "<abs>") + (" [listing reversed]" if k[1] else "")): v for k, v in results.items()}},
                            }
                        )
                    if honour and len(want) < len(model(cd, cwd, rel, carriers, exts, False)):
                        res["nontrivial"] += 1
                    res["cls"].add(digest((tname, exts, honour, tuple(want))))
    finally:
        os.chdir(old)
        shutil.rmtree(base, ignore_errors=True)
    res.setdefault("sample", case)
    return res


def post(agg, tier):
    return {"states": len(agg["classes"]), "transitions": agg["n"], "traces_validated_against_impl": agg["n"]}
