"""C01 Lexing is lossless, ordered and total (DESIGN.md §3 C01)."""

from __future__ import annotations

import itertools

from vf import corpus, sq
from vf.core import digest

LEVEL = "exploration"
RULE = (
    "raw: every string over the 33-char alphabet Sigma_c up to length n x every bundled dialect; "
    "token sequences over Sigma_t24 (+dialect tokens) up to length k; templated: every Jinja skeleton of "
    "the T family up to the stated depth/length x 6 contexts x every variant, python-format and placeholder "
    "strings. Non-trivial = the lexer returned >= 2 non-meta tokens besides end_of_file (so ordering/contiguity "
    "clauses compare something); distinct by construction (enumerated as a set)."
)
ASSUMPTIONS = [
    "Python lexer only (sqlfluffrs not installed)",
    "source-order clause allows a decrease only across a backward jump of the templater's own source map (rendered loop)",
]
BOUND = {
    "quick": "Sigma_c^<=3 x 28 dialects; Sigma_t24^<=3 ansi + Sigma_t18+dialect tokens ^<=2 x dialects; T depth1 <=2 items len<=34 x 6 ctx; py/placeholder pieces^<=3",
    "thorough": "Sigma_c^<=4 ansi + ^<=3 x 28; Sigma_t24^<=4 ansi; T depth1 <=2 items len<=48 + ws-control<=1; py/placeholder pieces^<=4",
}
FLOOR = {"quick": 100000, "thorough": 400000}
CHUNK = 4

PY_PIECES = ["SELECT ", "{a}", "{b.c}", "{{", "}}", " FROM t", "\n", "  "]
PH_PIECES = ["SELECT ", ":p", ":1", "':p'", "::p", " WHERE a = ", "\n", "  "]


def cases(tier):
    n = 3
    out = []
    for d in corpus.dialects():
        for c in [None] + corpus.SIGMA_C:
            out.append({"k": "rawblock", "d": d, "p": c, "n": n})
    if tier == "thorough":
        for c1, c2 in itertools.product(corpus.SIGMA_C, repeat=2):
            out.append({"k": "rawblock4", "d": "ansi", "p": c1 + c2})
    kt = 3 if tier == "quick" else 4
    for t in corpus.SIGMA_T24:
        out.append({"k": "tokblock", "d": "ansi", "p": t, "n": kt})
    for d in corpus.dialects():
        if d == "ansi":
            continue
        for t in corpus.SIGMA_T18 + corpus.DIALECT_TOKENS.get(d, []):
            out.append({"k": "tokblock", "d": d, "p": t, "n": 2, "ext": True})
    ml = 34 if tier == "quick" else 48
    ts = [t for t in corpus.t_seqs(1, 2, corpus.T_LITS4, max_len=ml) if corpus.has_markup(t)]
    if tier == "thorough":
        tset = set(ts)
        for t in ts:
            if len(t) <= 34:
                tset |= corpus.ws_control_variants(t, 1)
        ts = sorted(tset, key=lambda s: (len(s), s))
    # tokens that span 2..4 template slices (also at source offset 0), templated whitespace, nesting
    extra = set(corpus.span_templates(4)) | set(corpus.nested_templates(full=(tier != "quick")))
    ts = sorted(set(ts) | extra, key=lambda s: (len(s), s))
    for grp in range(0, len(ts), 16):
        out.append({"k": "jinja", "ts": ts[grp : grp + 16]})
    # strings the Linter would normalise before lexing (lone CR): straight into the public Lexer
    for d in corpus.dialects():
        out.append({"k": "directblock", "d": d, "n": 3 if tier == "quick" else 4 if d == "ansi" else 3})
    # every alphabet character arriving through template OUTPUT (context / parameter values), all templaters
    out.append({"k": "tplchars"})
    kp = 3 if tier == "quick" else 4
    for first in PY_PIECES:
        out.append({"k": "python", "p": first, "n": kp})
    for first in PH_PIECES:
        out.append({"k": "placeholder", "p": first, "n": kp})
    return out


# the value of x / :p is one alphabet character: between two words, alone, inside a comment, doubled
TPL_SHAPES = [
    {"jinja_ch": "SELECT a{{ x }}FROM t\n", "python_ch": "SELECT a{x}FROM t\n", "placeholder_ch": "SELECT a:p FROM t\n"},
    {"jinja_ch": "{{ x }}", "python_ch": "{x}", "placeholder_ch": ":p"},
    {"jinja_ch": "SELECT 1 -- {{ x }} c\nFROM t\n", "python_ch": "SELECT 1 -- {x} c\nFROM t\n", "placeholder_ch": "SELECT 1 -- :p c\nFROM t\n"},
    {"jinja_ch": "SELECT {{ x }}{{ x }} FROM t\n", "python_ch": "SELECT {x}{x} FROM t\n", "placeholder_ch": "SELECT :p:p FROM t\n"},
]


def _ch_linter(kind, ch):
    if kind == "jinja_ch":
        return sq.linter("ansi", "jinja", configs={"templater": {"jinja": {"context": {"x": ch}}}})
    if kind == "python_ch":
        return sq.linter("ansi", "python", configs={"templater": {"python": {"context": {"x": ch}}}})
    return sq.linter("ansi", "placeholder", configs={"templater": {"placeholder": {"param_style": "colon", "p": ch}}})


def _pieces(first, pieces, n):
    yield first
    for k in range(1, n):
        for tup in itertools.product(pieces, repeat=k):
            yield first + "".join(tup)


def check_tokens(tf, toks, errs, templated: bool, fails, add):
    """Evaluate all clauses on one token tuple. add(clause, features, detail)."""
    src = tf.source_str
    ts = tf.templated_str
    if "".join(x.raw for x in toks) != ts:
        add("concat", {}, {"got": "".join(x.raw for x in toks)[:80], "want": ts[:80]})
    pos = 0
    for i, x in enumerate(toks):
        sl = x.pos_marker.templated_slice
        if sl.start != pos or sl.stop - sl.start != len(x.raw):
            # signature of the known split-whitespace call site: an adjacent whitespace
            # token carries the very same templated slice (the whole lexed element).
            add(
                "tmpl_contig",
                {},
                {"raw": x.raw, "slice": [sl.start, sl.stop], "expected_start": pos},
            )
        pos = sl.stop
    sf = tf.sliced_file
    jumps = [a.templated_slice.stop for a, b in zip(sf, sf[1:]) if b.source_slice.start < a.source_slice.start]
    nonlit = [(rs.source_idx, rs.source_idx + len(rs.raw)) for rs in tf.raw_sliced if rs.slice_type != "literal"]
    cov = bytearray(len(src))
    prev = None
    for x in toks:
        ss = x.pos_marker.source_slice
        tsl = x.pos_marker.templated_slice
        if not (0 <= ss.start <= len(src) and 0 <= ss.stop <= len(src)):
            add("src_bounds", {}, {"raw": x.raw, "slice": [ss.start, ss.stop]})
            continue
        if not templated and (ss.start, ss.stop) != (tsl.start, tsl.stop):
            add("raw_identity", {}, {"raw": x.raw, "src": [ss.start, ss.stop], "tmpl": [tsl.start, tsl.stop]})
        if ss.start > ss.stop:
            if not any(tsl.start <= j <= tsl.stop for j in jumps):
                add("src_inverted", {}, {"raw": x.raw, "slice": [ss.start, ss.stop]})
        else:
            for k in range(ss.start, ss.stop):
                cov[k] = 1
        if x.is_meta and not x.is_type("placeholder", "template_loop"):
            continue
        if prev is not None and ss.start < prev[0]:
            if not any(prev[1] <= j <= tsl.stop for j in jumps):
                lo, hi = min(ss.start, ss.stop), max(ss.start, ss.stop)
                spans = any(lo < a and b < hi or (lo <= a and b <= hi and (lo, hi) != (a, b)) for a, b in nonlit)
                pspans = any(
                    prev[2] <= a and b <= prev[3] and (prev[2], prev[3]) != (a, b) for a, b in nonlit
                )
                add(
                    "src_order",
                    {"token_spans_nonliteral": bool(spans or pspans)},
                    {"prev": list(prev), "raw": x.raw, "slice": [ss.start, ss.stop]},
                )
        prev = (ss.start, tsl.start, min(ss.start, ss.stop), max(ss.start, ss.stop))
    if not all(cov):
        unc = [k for k, c in enumerate(cov) if not c]
        # signature: uncovered range is exactly a suffix made only of non-literal raw slices / whitespace-free tail
        tail_start = unc[0]
        trailing = unc == list(range(tail_start, len(src))) and all(
            rs.slice_type != "literal" for rs in tf.raw_sliced if rs.source_idx >= tail_start
        ) and any(rs.source_idx == tail_start for rs in tf.raw_sliced)
        add("uncovered", {"trailing_nonliteral_only": bool(trailing)}, {"uncovered": unc[:8]})
    unl = [x for x in toks if x.is_type("unlexable")]
    if len(unl) != len(errs):
        add("lxr_count", {}, {"unlexable": len(unl), "errors": len(errs)})
    else:
        for u, e in zip(unl, errs):
            if (e.line_no, e.line_pos) != u.pos_marker.source_position():
                add("lxr_pos", {}, {"err": [e.line_no, e.line_pos], "tok": list(u.pos_marker.source_position())})


def _lex_one(lnt, text, templated, kind, extra, res):
    from sqlfluff.core.linter.linter import Linter

    res["n"] += 1

    def mk(variant):
        def add(clause, features, detail):
            c = {"k": "one", "kind": kind, "s": text}
            c.update(extra)
            detail = dict(detail)
            detail["variant"] = variant
            res["fails"].append({"clause": clause, "features": features, "detail": detail, "case": c})

        return add

    if kind == "direct":
        # the public Lexer API on the text as given (Linter.render_string would normalise line endings first)
        from sqlfluff.core import Lexer
        from sqlfluff.core.templaters import TemplatedFile

        variants, config = [TemplatedFile.from_string(text)], lnt.config
    else:
        try:
            r = sq.render(lnt, text)
        except Exception as e:  # render must not raise
            mk(0)("render_exception", {"type": type(e).__name__}, {"msg": str(e)[:200]})
            return
        if not r.templated_variants:
            res["stats"]["no_variant"] = res["stats"].get("no_variant", 0) + 1
            return
        variants, config = r.templated_variants, r.config
    for vi, tf in enumerate(variants):
        add = mk(vi)
        try:
            if kind == "direct":
                toks, errs = Lexer(config=config).lex(text)
            else:
                toks, errs = Linter._lex_templated_file(tf, config)
        except Exception as e:
            add("lex_exception", {"type": type(e).__name__}, {"msg": str(e)[:200]})
            continue
        if toks is None:
            add("lex_none", {}, {"errs": [str(e)[:80] for e in errs]})
            continue
        ws_slices = [
            (x.pos_marker.templated_slice.start, x.pos_marker.templated_slice.stop)
            for x in toks
            if x.is_type("whitespace")
        ]
        split_ws = templated and len(ws_slices) != len(set(ws_slices))
        # structural features of this execution, used only to tell known call sites apart
        nonlit = [(rs.source_idx, rs.source_idx + len(rs.raw)) for rs in tf.raw_sliced if rs.slice_type != "literal"]
        spanning = False
        for x in toks:
            if x.is_meta:
                continue
            ss = x.pos_marker.source_slice
            lo, hi = min(ss.start, ss.stop), max(ss.start, ss.stop)
            if any(lo <= a and b <= hi and (lo, hi) != (a, b) and b > a for a, b in nonlit):
                spanning = True
                break
            # the same in templated space (also sees a token that spans two loop iterations): the token
            # strictly contains the position of a zero-width non-literal slice, or overlaps >= 2 slices
            ts_ = x.pos_marker.templated_slice
            touched = 0
            for s in tf.sliced_file:
                a, b = s.templated_slice.start, s.templated_slice.stop
                if a == b:
                    if ts_.start < a < ts_.stop:
                        touched = 2
                        break
                elif a < ts_.stop and ts_.start < b:
                    touched += 1
            if touched >= 2:
                spanning = True
                break
        unreached_nested = False
        if templated and vi > 0:
            from vf.props.tplfam import if_inside_for

            unreached_nested = if_inside_for(tf)

        def add2(clause, features, detail, _add=add, _sw=split_ws, _sp=spanning, _un=unreached_nested):
            if clause in ("tmpl_contig", "uncovered", "src_bounds", "src_inverted", "src_order"):
                features = dict(features)
                if _sw:
                    features["tuple_has_split_whitespace"] = True
                if _sp and clause in ("tmpl_contig", "src_order"):
                    features["tuple_has_token_spanning_nonliteral"] = True
                if _un:
                    features["unreached_variant_with_if_inside_for"] = True
            _add(clause, features, detail)

        check_tokens(tf, toks, errs, templated, res["fails"], add2)
        nm = [x for x in toks if not x.is_meta]
        if len(nm) >= 2:
            res["nontrivial_now"] = True
        res["cls"].add(digest(tuple(x.get_type() for x in toks)))
        if any(x.is_type("unlexable") for x in toks):
            res["stats"]["with_unlexable"] = res["stats"].get("with_unlexable", 0) + 1
        if vi > 0:
            res["stats"]["variants_gt0"] = res["stats"].get("variants_gt0", 0) + 1


def run_case(case):
    res = {"n": 0, "fails": [], "cls": set(), "stats": {}, "nontrivial": 0}
    k = case["k"]

    def one(lnt, text, templated, kind, extra):
        res["nontrivial_now"] = False
        _lex_one(lnt, text, templated, kind, extra, res)
        if res.pop("nontrivial_now", False):
            res["nontrivial"] += 1
            res.setdefault("sample", {"k": "one", "kind": kind, "s": text, **extra})

    if k == "rawblock":
        lnt = sq.linter(case["d"], "raw")
        if case["p"] is None:
            one(lnt, "", False, "raw", {"d": case["d"]})
        else:
            for s in corpus.sigma_c(case["n"] - 1):
                one(lnt, case["p"] + s, False, "raw", {"d": case["d"]})
    elif k == "rawblock4":
        lnt = sq.linter(case["d"], "raw")
        for s in corpus.sigma_c(2):
            if len(s) == 2:
                one(lnt, case["p"] + s, False, "raw", {"d": case["d"]})
    elif k == "tokblock":
        lnt = sq.linter(case["d"], "raw")
        al = corpus.SIGMA_T24 if not case.get("ext") else corpus.SIGMA_T18 + corpus.DIALECT_TOKENS.get(case["d"], [])
        for s in corpus.token_seqs(al, case["n"] - 1):
            p = case["p"]
            txt = p + ("" if (not s or p.endswith("\n")) else " ") + s
            one(lnt, txt, False, "raw", {"d": case["d"]})
    elif k == "directblock":
        lnt = sq.linter(case["d"], "raw")
        for s in corpus.sigma_c(case["n"]):
            if "\r" in s:
                one(lnt, s, False, "direct", {"d": case["d"]})
    elif k == "tplchars":
        for ci, ch in enumerate(corpus.SIGMA_C):
            for shape in range(len(TPL_SHAPES)):
                for kind in ("jinja_ch", "python_ch", "placeholder_ch"):
                    one(_ch_linter(kind, ch), TPL_SHAPES[shape][kind], True, kind, {"ch": ci, "shape": shape})
    elif k == "jinja":
        for t in case["ts"]:
            for ci, ctx in enumerate(corpus.T_CTX):
                for tbi in ((True,) if ci else (True, False, "force")):
                    lnt = sq.linter("ansi", "jinja", configs=sq.jinja_ctx_configs(ctx), template_blocks_indent=tbi)
                    one(lnt, t, True, "jinja", {"ctx": ci, "tbi": tbi})
    elif k == "python":
        lnt = sq.linter("ansi", "python", configs={"templater": {"python": {"context": {"a": "x", "b.c": "y"}}}})
        for s in _pieces(case["p"], PY_PIECES, case["n"]):
            one(lnt, s, True, "python", {})
    elif k == "placeholder":
        lnt = sq.linter("ansi", "placeholder", configs={"templater": {"placeholder": {"param_style": "colon", "p": "zz"}}})
        for s in _pieces(case["p"], PH_PIECES, case["n"]):
            one(lnt, s, True, "placeholder", {})
    elif k == "one":
        kind = case["kind"]
        if kind == "raw":
            one(sq.linter(case["d"], "raw"), case["s"], False, "raw", {"d": case["d"]})
        elif kind == "jinja":
            ctx = corpus.T_CTX[case["ctx"]]
            lnt = sq.linter("ansi", "jinja", configs=sq.jinja_ctx_configs(ctx), template_blocks_indent=case["tbi"])
            one(lnt, case["s"], True, "jinja", {"ctx": case["ctx"], "tbi": case["tbi"]})
        elif kind == "direct":
            one(sq.linter(case["d"], "raw"), case["s"], False, "direct", {"d": case["d"]})
        elif kind.endswith("_ch"):
            one(_ch_linter(kind, corpus.SIGMA_C[case["ch"]]), case["s"], True, kind, {"ch": case["ch"], "shape": case["shape"]})
        elif kind == "python":
            lnt = sq.linter("ansi", "python", configs={"templater": {"python": {"context": {"a": "x", "b.c": "y"}}}})
            one(lnt, case["s"], True, "python", {})
        else:
            lnt = sq.linter("ansi", "placeholder", configs={"templater": {"placeholder": {"param_style": "colon", "p": "zz"}}})
            one(lnt, case["s"], True, "placeholder", {})
    return res
