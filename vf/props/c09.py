"""C09 Python-format and placeholder templaters render faithfully (reference models + full replay)."""

from __future__ import annotations

from vf import sq
from vf.core import digest
from vf.models import placeholder as ph_model
from vf.models import pyformat as py_model
from vf.props import tplfam

LEVEL = "model_checking"
RULE = (
    "python: every concatenation of <= n pieces from {SELECT, {a}, {a.b}, {c.d.e}, {{, }}, {{x}}, '{{1.5}}', {a!r}, {a:>4}, {a.b:>4}, FROM t, newline} x 3 "
    "contexts (one with the dotted keys missing); field names over 8 name atoms (non-ASCII letters, hyphen, space, leading underscore / digit) plain and "
    "dotted (72 names) x 5 forms x {all keys defined, none}; reference model = string.Formatter().parse + dotted lookup in the sqlfluff mapping. "
    "placeholder: every concatenation of <= n pieces (SQL fragments, the style's parameter spellings, look-alikes ::p \\:p a:p) x 12 styles x "
    "values configured / not; reference model = one regex.sub over a frozen copy of the documented style table. Every model case is "
    "replayed against the implementation (traces_validated = evaluations). Non-trivial = the model renders something different from the "
    "source (a substitution happened) or the model says the string must fail."
)
ASSUMPTIONS = [
    "reserved context keys (param_style, param_regex) are configuration, not values, and are excluded from parameter names",
    "a format string the model cannot render because a key is absent must produce a TMP violation, never a rendering",
]
BOUND = {"quick": "13 py pieces^<=3 x 3 ctx; 12 styles x (4+params+6 look-alikes)^<=3 x 2", "thorough": "pieces^<=4"}
FLOOR = {"quick": 20000, "thorough": 200000}
CHUNK = 1


def cases(tier):
    out = []
    ps = tplfam.py_strings(tier)
    for i in range(0, len(ps), 128):
        out.append({"k": "python", "ss": ps[i : i + 128]})
    fs = field_strings()
    for i in range(0, len(fs), 64):
        out.append({"k": "pyfields", "ss": fs[i : i + 64]})
    for st in tplfam.ph_styles():
        if st not in ph_model.STYLES:
            continue
        hs = tplfam.ph_strings(st, tier)
        for i in range(0, len(hs), 256):
            out.append({"k": "placeholder", "style": st, "ss": hs[i : i + 256]})
    return out


# field names over an alphabet of name atoms (non-ASCII letters, a hyphen, a space, a leading digit/underscore),
# plain and dotted, with and without format spec / conversion; context 0 defines every key, context 1 none
FIELD_ATOMS = ["a", "\u00e9", "\u8868", "a-b", "a b", "_1", "\u044f", "A1"]
FIELD_NAMES = FIELD_ATOMS + [x + "." + y for x in FIELD_ATOMS for y in FIELD_ATOMS]
FIELD_CTXS = [{n: "v%d" % i for i, n in enumerate(FIELD_NAMES)}, {"zz": "1"}]


def field_strings():
    out = []
    for n in FIELD_NAMES:
        for form in ("{%s}", "SELECT {%s} FROM t\n", "{%s:>4}", "{%s!r}", "{{x}}{%s}"):
            out.append(form % n)
    return out


def py_ctx(ci, ctxs=None):
    c = dict((ctxs or tplfam.PY_CTXS)[ci])
    dotted = {k: v for k, v in c.items() if "." in k}
    plain = {k: v for k, v in c.items() if "." not in k}
    if dotted:
        plain["sqlfluff"] = dotted
    return plain


def py_linter(ci, ctxs=None):
    return sq.linter("ansi", "python", configs={"templater": {"python": {"context": py_ctx(ci, ctxs)}}})


def has_dotted(s):
    import string

    try:
        return any(f is not None and "." in f for _, f, _, _ in string.Formatter().parse(s))
    except ValueError:
        return "." in s


def run_case(case):
    res = {"n": 0, "fails": [], "cls": set(), "stats": {}, "nontrivial": 0}
    if case["k"] in ("python", "pyfields"):
        ctxs = FIELD_CTXS if case["k"] == "pyfields" else tplfam.PY_CTXS
        for s in case["ss"]:
            for ci in range(len(ctxs)):
                if "ctx" in case and case["ctx"] != ci:
                    continue
                res["n"] += 1
                one = {"k": case["k"], "ss": [s], "ctx": ci}
                ctx = py_ctx(ci, ctxs)
                try:
                    exp = ("ok", py_model.render(s, ctx))
                except py_model.Missing as e:
                    exp = ("missing", str(e))
                except ValueError as e:
                    exp = ("invalid", str(e))
                lnt = py_linter(ci, ctxs)
                try:
                    r = sq.render(lnt, s)
                    got = ("ok", r.templated_variants[0].templated_str) if r.templated_variants else ("tmp", [v.desc()[:80] for v in r.templater_violations])
                    tmp = bool(r.templater_violations)
                except Exception as e:
                    got = ("crash", type(e).__name__)
                    tmp = False
                feats = {"model": exp[0], "impl": got[0], "has_dotted_field": has_dotted(s), "escaped_braces_and_dot": ("{{" in s or "}}" in s) and "." in s, "dotted_spec_then_brace": bool(__import__("re").search(r"\{[^:}]*\.[^:}]*:\S*\}\S*\}", s))}
                if exp[0] == "ok":
                    if got[0] != "ok" or got[1] != exp[1] or tmp:
                        res["fails"].append({"clause": "py_render", "features": feats, "detail": {"want": exp[1][:120], "got": str(got[1])[:160]}, "case": one})
                elif exp[0] == "missing":
                    if got[0] == "ok" and not tmp:
                        res["fails"].append({"clause": "py_missing_key_rendered", "features": feats, "detail": {"got": got[1][:120], "missing": exp[1]}, "case": one})
                else:
                    if got[0] == "ok" and not tmp:
                        res["fails"].append({"clause": "py_invalid_rendered", "features": feats, "detail": {"got": got[1][:120]}, "case": one})
                if exp[0] != "ok" or exp[1] != s:
                    res["nontrivial"] += 1
                    res.setdefault("sample", one)
                res["cls"].add(digest(exp))
    else:
        st = case["style"]
        for s in case["ss"]:
            for vi in range(len(tplfam.PH_VALUES)):
                if "vi" in case and case["vi"] != vi:
                    continue
                res["n"] += 1
                one = {"k": "placeholder", "style": st, "ss": [s], "vi": vi}
                exp, nparams = ph_model.render(s, st, tplfam.PH_VALUES[vi])
                lnt = tplfam.ph_linter(st, vi)
                try:
                    r = sq.render(lnt, s)
                    got = r.templated_variants[0].templated_str if r.templated_variants else None
                except Exception as e:
                    got = "CRASH " + type(e).__name__
                if got != exp:
                    res["fails"].append({"clause": "ph_render", "features": {"style": st}, "detail": {"want": exp[:120], "got": str(got)[:120]}, "case": one})
                elif r.templated_variants:
                    tf = r.templated_variants[0]
                    n_t = sum(1 for x in tf.sliced_file if x.slice_type == "templated")
                    if n_t != nparams:
                        res["fails"].append({"clause": "ph_param_count", "features": {"style": st}, "detail": {"model": nparams, "impl": n_t}, "case": one})
                if exp != s:
                    res["nontrivial"] += 1
                    res.setdefault("sample", one)
                res["cls"].add(digest((st, exp)))
    return res


def post(agg, tier):
    n = agg["n"]
    return {"states": len(agg["classes"]), "transitions": n, "traces_validated_against_impl": n}
