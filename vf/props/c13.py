"""C13 Fixing never makes a parsable file unparsable."""

from __future__ import annotations

from vf.core import digest
from vf.props import fixfam

LEVEL = "exploration"
RULE = (
    "same input families as C12 (G(k)xD(1;WKME)+operator list under {layout, all, format}; rule-YAML strings with their own "
    "configs under all rules). Checked only for inputs that lint without TMP/LXR/PRS. Non-trivial = input was clean of "
    "TMP/LXR/PRS and the fix changed the text; distinct inputs by construction."
)
ASSUMPTIONS = ["the fixed text is re-linted with the same Linter/config object (same dialect and configuration)"]
BOUND = {"quick": "G(1)xD(1;WKME)+glue x {layout,all,format}; YAML strings x all", "thorough": "G(2)xD(1;WKME)+G(1)xD(2;WK) x {layout,all,format}; YAML x {all,format}"}
FLOOR = {"quick": 3000, "thorough": 20000}
CHUNK = 1


def cases(tier):
    return fixfam.fix_cases(
        tier, rulesets_raw=("layout", "all", "format"), rulesets_yaml=("all",) if tier == "quick" else ("all", "format"),
        rulesets_fixtures=("all",) if tier == "quick" else ("all", "layout"), rulesets_fixture_gaps=("all",),
    ) + fixfam.layout_product_cases(("all",))


def oracle(one, lnt, text, lf, fixed, add, res):
    if fixed is None or fixfam.has_parse_errors(lf.violations):
        fixfam.bump(res, "input_not_clean")
        return False
    if fixed == text:
        return False
    after = lnt.lint_string(fixed)
    bad = [v for v in after.violations if v.rule_code() in ("TMP", "LXR", "PRS")]
    if bad:
        add("unparsable_after_fix", {"code": bad[0].rule_code(), "new_double_dash": ("--" in fixed and "--" not in text)}, {"fixed": fixed[:300], "err": bad[0].desc()[:200]})
    res["cls"].add(digest((text, fixed)))
    return True


run_case = fixfam.make_runner(oracle)
