"""C13 Fixing never makes a parsable file unparsable."""

from __future__ import annotations

from vf.core import digest
from vf.props import fixfam

LEVEL = "exploration"
RULE = (
    "same input families as C12 (G(k)xD(1;WKME)+operator list under {layout, all, format}; rule-YAML strings with their own "
    "configs under all rules). Checked only for inputs that lint without TMP/LXR/PRS. Non-trivial = input was clean of "
    "TMP/LXR/PRS and the fix changed the text; distinct inputs by construction."
)
ASSUMPTIONS = ["the fixed text is re-linted with the same Linter/config object (same dialect and configuration)"]
BOUND = {"quick": "G(1)xD(1;WKME)+glue x {layout,all,format}; YAML strings x all", "thorough": "G(2)xD(1;WKME)+G(1)xD(2;WK) x {layout,all,format}; YAML x {all,format}"}
FLOOR = {"quick": 3000, "thorough": 20000}
CHUNK = 1


def cases(tier):
    return fixfam.fix_cases(
        tier, rulesets_raw=("layout", "all", "format"), rulesets_yaml=("all",) if tier == "quick" else ("all", "format"),
        rulesets_fixtures=("all",) if tier == "quick" else ("all", "layout"), rulesets_fixture_gaps=("all",),
    ) + fixfam.layout_product_cases(("all",)) + fixfam.ruleopts_cases() + fixfam.layout_sweep_cases(("layout",)) + span_cases()


def oracle(one, lnt, text, lf, fixed, add, res):
    if fixed is None or fixfam.has_parse_errors(lf.violations):
        fixfam.bump(res, "input_not_clean")
        return False
    if fixed == text:
        return False
    after = lnt.lint_string(fixed)
    bad = [v for v in after.violations if v.rule_code() in ("TMP", "LXR", "PRS")]
    if bad:
        add("unparsable_after_fix", {"code": bad[0].rule_code(), "new_double_dash": ("--" in fixed and "--" not in text)}, {"fixed": fixed[:300], "err": bad[0].desc()[:200]})
    res["cls"].add(digest((text, fixed)))
    return True


_raw_runner = fixfam.make_runner(oracle)

# a token (identifier, or quoted literal) that spans template slices, on its own mis-indented line / before a
# double space, so that a layout fix touches the segment next to it
SPAN_SHAPES = ["SELECT\n  @S@\nFROM t\n", "SELECT\n  '@S@'\nFROM t\n", "SELECT @S@  FROM t\n", "SELECT 1 AS @S@  ,2\n"]


def span_cases():
    from vf import corpus

    ts = corpus.span_templates(3)
    out = []
    for i in range(0, len(ts), 16):
        out.append({"k": "tplspan", "ts": ts[i : i + 16]})
    return out


def run_tplspan(case):
    from vf import corpus, sq
    from vf.props import c10

    res = {"n": 0, "fails": [], "cls": set(), "stats": {}, "nontrivial": 0}
    lnt = sq.linter("ansi", "jinja", rules="all", configs=sq.jinja_ctx_configs(corpus.SPAN_CTX))
    for sp in case["ts"]:
        for si, shape in enumerate(SPAN_SHAPES):
            if "shape" in case and case["shape"] != si:
                continue
            res["n"] += 1
            text = shape.replace("@S@", sp)
            one = {"k": "tplspan", "ts": [sp], "shape": si}
            try:
                lf, fixed = fixfam.run_fix(lnt, text)
            except Exception:
                fixfam.bump(res, "fix_exception")
                continue
            if fixed is None or fixfam.has_parse_errors(lf.violations):
                fixfam.bump(res, "input_not_clean")
                continue
            if fixed == text:
                continue
            after = lnt.lint_string(fixed)
            bad = [v for v in after.violations if v.rule_code() in ("TMP", "LXR", "PRS")]
            if bad:
                res["fails"].append(
                    {
                        "clause": "unparsable_after_fix",
                        "features": {"code": bad[0].rule_code(), "templated": True, "patch_inverted_or_spans_tag": c10.patch_sig(lf)},
                        "detail": {"input": text, "fixed": fixed[:300], "err": bad[0].desc()[:200]},
                        "case": one,
                    }
                )
            res["nontrivial"] += 1
            res.setdefault("sample", one)
            res["cls"].add(digest((text, fixed)))
    return res


def run_case(case):
    if case.get("k") == "tplspan":
        return run_tplspan(case)
    return _raw_runner(case)
