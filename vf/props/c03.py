"""C03 Parse trees are well-formed and indentation markers balance (DESIGN.md §3 C03)."""

from __future__ import annotations

from vf import corpus, sq
from vf.core import digest
from vf.props import parsefam

LEVEL = "exploration"
RULE = (
    "every dialect fixture up to the byte bound parsed by its own dialect grammar (each dialect is a grammar program); "
    "G(1) (quick) / G(1)xD(1) (thorough) and Sigma_t^<=2 in every dialect; Sigma_t24^<=k and G(1)xD(1)+G(2) in ansi; "
    "Jinja skeletons under template_blocks_indent in {true,false}. Non-trivial = tree has >= 2 non-leaf nodes below the "
    "root and >= 1 indent meta; distinct inputs by construction."
)
ASSUMPTIONS = [
    "balance is evaluated on the tree the linter lints (after the template-indent balance filter)",
    "'begins/ends with whitespace or comment' is evaluated on the first/last child that has text (zero-width metas skipped)",
]
BOUND = dict(parsefam_quick="see C02", quick="parse family quick bound (see C02) with fixtures<=400B", thorough="parse family thorough bound, fixtures<=2000B")
FLOOR = {"quick": 6000, "thorough": 30000}
CHUNK = 2


def cases(tier):
    cs = parsefam.parse_cases(tier, jinja=True)
    # tree-shape and indent-balance clauses on (nearly) EVERY dialect fixture: an Indent without a Dedent is a
    # property of one grammar construct, and the larger fixtures are where the rarer constructs live
    lo, hi = (400, 4000) if tier == "quick" else (2000, 10**9)
    small = {f[1] for f in corpus.fixtures(lo)}
    big = [f[1] for f in corpus.fixtures(hi) if f[1] not in small]
    for i in range(0, len(big), 4):
        cs.append({"k": "fixtures", "ids": big[i : i + 4]})
    return cs


def walk(seg, is_root, add, st):
    kids = seg.segments
    if not kids:
        return
    st["nodes"] += 1
    pm = seg.pos_marker
    ms = [c.pos_marker for c in kids]
    hull_s = (min(m.source_slice.start for m in ms), max(m.source_slice.stop for m in ms))
    hull_t = (min(m.templated_slice.start for m in ms), max(m.templated_slice.stop for m in ms))
    if (pm.source_slice.start, pm.source_slice.stop) != hull_s:
        add("hull_source", {"type": seg.get_type()}, {"node": [pm.source_slice.start, pm.source_slice.stop], "hull": hull_s})
    if (pm.templated_slice.start, pm.templated_slice.stop) != hull_t:
        add("hull_templated", {"type": seg.get_type()}, {"node": [pm.templated_slice.start, pm.templated_slice.stop], "hull": hull_t})
    prev_start = None
    prev_stop = None
    for c in kids:
        ts = c.pos_marker.templated_slice
        if prev_start is not None and ts.start < prev_start:
            add("child_order", {"type": seg.get_type()}, {"child": c.get_type(), "start": ts.start, "prev_start": prev_start})
        if ts.stop > ts.start:
            if prev_stop is not None and ts.start < prev_stop:
                add("child_overlap", {"type": seg.get_type()}, {"child": c.get_type(), "start": ts.start, "prev_stop": prev_stop})
            prev_stop = ts.stop
        prev_start = ts.start
    if not is_root and not seg.is_type("unparsable") and not seg.is_type("file"):
        textual = [c for c in kids if not c.is_meta]
        if textual:
            for which, c in (("first", textual[0]), ("last", textual[-1])):
                if c.is_whitespace or c.is_comment or c.is_type("newline"):
                    add("noncode_end", {"which": which, "node": seg.get_type()}, {"child": c.get_type(), "raw": c.raw[:20]})
    for c in kids:
        walk(c, False, add, st)


def balance(tree):
    """-> (min prefix, final) over raw_segments indent_val."""
    bal = 0
    lo = 0
    for s in tree.raw_segments:
        if s.is_meta:
            bal += getattr(s, "indent_val", 0)
            lo = min(lo, bal)
    return lo, bal


def unbalanced_node_has_unparsable(tree):
    """Signature for the known Sequence.match finding: find a minimal subtree whose own
    leaves are unbalanced; report whether it is / directly contains an unparsable node."""

    def own(seg):
        lo, bal = balance(seg)
        return lo < 0 or bal != 0

    node = tree
    while True:
        nxt = None
        for c in node.segments:
            if c.segments and own(c):
                nxt = c
                break
        if nxt is None:
            break
        node = nxt
    return node.is_type("unparsable") or any(c.is_type("unparsable") for c in node.segments)


def check_one(lnt, text, add, res):
    try:
        parsed = lnt.parse_string(text)
    except Exception as e:
        add("exception", {"type": type(e).__name__}, {"msg": str(e)[:300]})
        return
    for vi, variant in enumerate(parsed.parsed_variants):
        tree = variant.tree
        if tree is None:
            continue
        st = {"nodes": 0}
        ws = [
            (x.pos_marker.templated_slice.start, x.pos_marker.templated_slice.stop)
            for x in tree.raw_segments
            if x.is_type("whitespace")
        ]
        split_ws = len(ws) != len(set(ws))
        from vf.props import tplfam

        spans = tplfam.token_spans_slices(variant.templated_file, tree.raw_segments)

        def add_pos(c, f, d, _vi=vi, _sw=split_ws, _sp=spans):
            if c in ("child_order", "child_overlap", "hull_source", "hull_templated"):
                if _sw:
                    f = dict(f, tree_has_split_whitespace=True)
                if _sp:
                    f = dict(f, tree_has_token_spanning_template_slices=True)
            add(c, f, dict(d, variant=_vi))

        walk(tree, True, add_pos, st)
        lo, bal = balance(tree)
        if lo < 0 or bal != 0:
            add(
                "indent_balance",
                {"unbalanced_node_has_unparsable": unbalanced_node_has_unparsable(tree), "negative": lo < 0},
                {"variant": vi, "min": lo, "final": bal},
            )
        n_ind = sum(1 for s in tree.raw_segments if s.is_meta and getattr(s, "indent_val", 0))
        if st["nodes"] >= 3 and n_ind:
            res["nt"] = True
        res["cls"].add(digest(sq.type_shape(tree)))


def run_case(case):
    res = {"n": 0, "fails": [], "cls": set(), "stats": {}, "nontrivial": 0}
    for one, d, tpl, ci, text in parsefam.expand(case):
        tbis = (True, False) if tpl == "jinja" else (True,)
        for tbi in tbis:
            res["n"] += 1
            res["nt"] = False
            o = dict(one)
            if tpl == "jinja":
                o["tbi"] = tbi

            def add(clause, features, detail, _one=o):
                res["fails"].append({"clause": clause, "features": features, "detail": detail, "case": _one})

            ov = {"template_blocks_indent": case.get("tbi", tbi)} if tpl == "jinja" else {}
            check_one(parsefam.get_linter(d, tpl, ci, **ov), text, add, res)
            if res.pop("nt"):
                res["nontrivial"] += 1
                res.setdefault("sample", o)
    return res
