"""C05 No rule fails internally on any parse tree."""

from __future__ import annotations

from vf import corpus, sq
from vf.core import digest
from vf.props import fixfam

LEVEL = "exploration"
RULE = (
    "all rules, lint and fix mode: G(k)xD(1; all operators incl. every truncation, deletion, swap, stray bracket/quote) and "
    "Sigma_t24^<=3 in ansi; G(1) (thorough: G(1)xD(1)) in every other dialect; every rule-YAML string under ALL rules (not only its "
    "own) with its own configs; thorough adds one rule option deviating at a time. Oracle: no violation whose description starts "
    "'Unexpected exception'. Non-trivial = >= 1 rule produced a violation or the tree has an unparsable node; distinct inputs."
)
ASSUMPTIONS = ["rule crashes are observed through BaseRule.crawl's own conversion into violations (left as is)"]
BOUND = {"quick": "G(1)xD(1)+Sigma_t24^<=2(+3 lint only) ansi; G(1) x 27 dialects; YAML strings; lint+fix", "thorough": "G(2)xD(1), Sigma_t24^<=3; G(1)xD(1) x dialects; YAML; rule options"}
FLOOR = {"quick": 5000, "thorough": 30000}
CHUNK = 1


def cases(tier):
    out = []
    base = corpus.G(1) if tier == "quick" else corpus.G(2)
    ss = corpus.D(base, 1)
    ss = sorted(set(ss) | set(fixfam.GLUE) | set(corpus.token_seqs(corpus.SIGMA_T24, 2 if tier == "quick" else 3)), key=lambda s: (len(s), s))
    for i in range(0, len(ss), 16):
        out.append({"k": "strs", "d": "ansi", "rs": "all", "ss": ss[i : i + 16]})
    g = corpus.G(1) if tier == "quick" else corpus.D(corpus.G(1), 1, "WKX")
    for d in corpus.dialects():
        if d != "ansi":
            for i in range(0, len(g), 16):
                out.append({"k": "strs", "d": d, "rs": "all", "ss": g[i : i + 16]})
    out += fixfam.fix_cases(tier, raw=False, rulesets_yaml=("all",))
    # every rule with options: every assignment of <= 2 of its enumerated options to each validated value,
    # run (that rule only, lint + fix) on every YAML string written for that rule
    for code, name, opts in rule_option_assignments():
        out.append({"k": "ruleopts", "rule": code, "name": name, "opts": opts})
    if tier == "thorough":
        for cfg in OPTION_CFGS:
            b = corpus.G(1) + fixfam.GLUE
            for i in range(0, len(b), 16):
                out.append({"k": "strs", "d": "ansi", "rs": "all", "ss": b[i : i + 16], "cfg": cfg})
    return out


OPTION_CFGS = [
    {"rules": {"aliasing.table": {"aliasing": "implicit"}}},
    {"rules": {"aliasing.column": {"aliasing": "implicit"}}},
    {"rules": {"aliasing.length": {"min_alias_length": 3, "max_alias_length": 4}}},
    {"rules": {"aliasing.forbid": {"force_enable": True}}},
    {"rules": {"ambiguous.join": {"fully_qualify_join_types": "both"}}},
    {"rules": {"ambiguous.column_references": {"group_by_and_order_by_style": "explicit"}}},
    {"rules": {"convention.not_equal": {"preferred_not_equal_style": "ansi"}}},
    {"rules": {"convention.select_trailing_comma": {"select_clause_trailing_comma": "require"}}},
    {"rules": {"convention.count_rows": {"prefer_count_1": True}}},
    {"rules": {"convention.terminator": {"multiline_newline": True, "require_final_semicolon": True}}},
    {"rules": {"convention.quoted_literals": {"preferred_quoted_literal_style": "double_quotes", "force_enable": True}}},
    {"rules": {"convention.casting_style": {"preferred_type_casting_style": "shorthand"}}},
    {"rules": {"convention.not_equal": {"preferred_not_equal_style": "c_style"}}},
    {"rules": {"references.keywords": {"quoted_identifiers_policy": "all", "unquoted_identifiers_policy": "all"}}},
    {"rules": {"references.special_chars": {"quoted_identifiers_policy": "all", "allow_space_in_identifier": True}}},
    {"rules": {"references.quoting": {"prefer_quoted_identifiers": True}}},
    {"rules": {"references.consistent": {"single_table_references": "qualified"}}},
    {"rules": {"references.consistent": {"single_table_references": "unqualified"}}},
    {"rules": {"structure.subquery": {"forbid_subquery_in": "both"}}},
    {"rules": {"structure.join_condition_order": {"preferred_first_table_in_join_clause": "later"}}},
    {"rules": {"layout.long_lines": {"ignore_comment_lines": True, "ignore_comment_clauses": True}}},
    {"rules": {"layout.select_targets": {"wildcard_policy": "multiple"}}},
    {"rules": {"layout.keyword_newline": {"keyword_line_position": "leading"}}},
    {"rules": {"layout.newlines": {"maximum_empty_lines_between_statements": 0, "maximum_empty_lines_inside_statements": 0}}},
    {"layout": {"type": {"comma": {"line_position": "leading"}}}},
    {"indentation": {"indent_unit": "tab"}},
    {"core": {"max_line_length": 20}},
]


def rule_option_assignments():
    import itertools

    from sqlfluff.core.rules import get_ruleset
    from sqlfluff.core.rules.config_info import get_config_info

    info = get_config_info()
    out = []
    for code, m in sorted(get_ruleset()._register.items()):
        kws = getattr(m.rule_class, "config_keywords", []) or []
        menus = {}
        for k in kws:
            v = info.get(k, {}).get("validation")
            if v is None:
                continue
            vals = [0, 1, 2] if isinstance(v, range) else list(v)[:6]
            menus[k] = vals
        names = sorted(menus)
        seen = set()
        for r in (1, 2):
            for combo in itertools.combinations(names, r):
                for vals in itertools.product(*(menus[k] for k in combo)):
                    opts = dict(zip(combo, vals))
                    key = tuple(sorted(opts.items(), key=str))
                    if key not in seen:
                        seen.add(key)
                        out.append((code, m.name, opts))
    return out


_BYRULE = {}


def ruleopts_items(case):
    """(one, linter, text) for every YAML string of the rule, that rule alone, options applied on top."""
    import json as _json

    if not _BYRULE:
        for y in fixfam.yaml_inputs():
            _BYRULE.setdefault(y[0], []).append(y)
    # the operator / comment-adjacent list under the same option assignment (ansi, raw)
    for s in fixfam.GLUE:
        if "only" in case and case["only"] != ["glue", s]:
            continue
        try:
            lnt = sq.linter("ansi", "raw", rules=case["rule"], configs={"rules": {case["name"]: dict(case["opts"])}})
        except Exception:
            continue
        yield dict(case, only=["glue", s]), lnt, s
    for y in _BYRULE.get(case["rule"], []):
        if "only" in case and case["only"] != [y[0], y[1], y[2]]:
            continue
        configs = _json.loads(y[4])
        d = (configs.get("core") or {}).get("dialect") or "ansi"
        tpl = (configs.get("core") or {}).get("templater")
        rules_cfg = dict(configs.get("rules") or {})
        rules_cfg[case["name"]] = dict(rules_cfg.get(case["name"]) or {}, **case["opts"])
        cfg2 = dict(configs, rules=rules_cfg)
        try:
            lnt = sq.linter(d, tpl, rules=case["rule"], configs=cfg2)
        except Exception:
            continue
        yield dict(case, only=[y[0], y[1], y[2]]), lnt, y[3]


def oracle_lint(lnt, text, add, res):
    lf = lnt.lint_string(text)
    return lf


def run_case(case):
    res = {"n": 0, "fails": [], "cls": set(), "stats": {}, "nontrivial": 0}
    for one, lnt, text in (ruleopts_items(case) if case["k"] == "ruleopts" else fixfam.expand(case)):
        for mode in ("lint", "fix"):
            res["n"] += 1
            o = dict(one, mode=mode)

            def add(clause, features, detail, _one=o):
                res["fails"].append({"clause": clause, "features": features, "detail": detail, "case": _one})

            try:
                lf = lnt.lint_string(text, fix=(mode == "fix"))
            except Exception:
                fixfam.bump(res, "exception_" + mode)  # C04's business
                continue
            bad = [v for v in lf.violations if v.desc().startswith("Unexpected exception")]
            seen = set()
            for v in bad:
                msg = v.desc().split(";")[0][:120]
                key = (v.rule_code(), msg)
                if key in seen:
                    continue
                seen.add(key)
                add("rule_internal_error", {"rule": v.rule_code(), "msg": msg.replace("Unexpected exception: ", "")[:80]}, {"desc": v.desc()[:300]})
            nt = bool(lf.violations) or (lf.tree is not None and any(True for _ in lf.tree.iter_unparsables()))
            if nt and mode == "lint":
                res["nontrivial"] += 1
                res.setdefault("sample", o)
            res["cls"].add(digest(tuple(sorted({v.rule_code() for v in lf.violations}))))
    return res


def run_replay_case(case):
    return run_case(case)
