"""C21 Rule selection is exact and rules are independent (selection model + full replay)."""

from __future__ import annotations

import fnmatch
import itertools

from vf import corpus, sq
from vf.core import digest
from vf.props import fixfam

LEVEL = "model_checking"
RULE = (
    "selection: selectors {LT01, layout.spacing, layout, core, all, L003 (alias), LT0*, L*, capitalisation.*, ZZ99 (unknown), AM0?} -- every "
    "subset of size <= 2 (thorough 3) as `rules` x every subset of size <= 2 as `exclude_rules`, given as comma strings with and without "
    "spaces; model = set algebra over the registered (code, name, groups, aliases) table (read as data). Reported codes of a lint under the "
    "selection must be within selection + {PRS, LXR, TMP}. independence: for every input of G(1)xD(1;WKM)+glue+YAML strings and every "
    "rule R, violations of R with only R enabled == violations of R with all rules enabled (lint mode, parse once). Every model case is "
    "replayed. Non-trivial = selection neither empty nor everything (selection) / some rule reported a violation (independence)."
)
ASSUMPTIONS = ["rule metadata (code, name, groups, aliases) is read from the registry as data; the selection logic itself is modelled independently"]
BOUND = {"quick": "11 selectors: C(<=2) x C(<=2) x 2 spellings; independence on G(1)xD(1;WKM)+glue (ansi), YAML strings in own dialect", "thorough": "C(<=3) x C(<=2); G(2)xD(1;WKM)"}
FLOOR = {"quick": 3000, "thorough": 20000}
CHUNK = 1

SELECTORS = ["LT01", "layout.spacing", "layout", "core", "all", "L003", "LT0*", "L*", "capitalisation.*", "ZZ99", "AM0?", "CP0[12]", "capitalisation.[k]eywords", "LT0[!1]"]
_ST = {}


def setup():
    from sqlfluff.core.rules import get_ruleset

    rs = get_ruleset()
    table = []
    for code, m in rs._register.items():
        table.append((code, m.name, tuple(m.groups), tuple(m.aliases)))
    _ST["table"] = sorted(table)
    _ST["codes"] = sorted(rs._register)


def model_expand(ref, table):
    codes = {c for c, _, _, _ in table}
    if ref in codes:
        return {ref}
    byname = {c for c, n, _, _ in table if n == ref}
    if byname:
        return byname
    bygroup = {c for c, _, g, _ in table if ref in g}
    if bygroup:
        return bygroup
    byalias = {c for c, _, _, a in table if ref in a}
    if byalias:
        return byalias
    out = set()
    for c, n, g, a in table:
        keys = [c, n] + list(g) + list(a)
        if any(k and fnmatch.fnmatchcase(k, ref) for k in keys):
            out.add(c)
    return out


def model_select(rules, exclude, table):
    allc = {c for c, _, _, _ in table}
    sel = set()
    if rules:
        for r in rules:
            sel |= model_expand(r, table)
    else:
        sel = set(allc)
    for r in exclude:
        sel -= model_expand(r, table)
    return sel


def cases(tier):
    out = []
    kmax = 2 if tier == "quick" else 3
    subsets = [()]
    for k in range(1, kmax + 1):
        subsets += list(itertools.combinations(SELECTORS, k))
    ex_subsets = [()] + [(s,) for s in SELECTORS] + list(itertools.combinations(SELECTORS, 2))
    combos = [(r, e) for r in subsets for e in ex_subsets]
    for i in range(0, len(combos), 64):
        out.append({"k": "sel", "combos": [[list(r), list(e)] for r, e in combos[i : i + 64]]})
    ss = fixfam.raw_strings(tier, "WKM")
    for i in range(0, len(ss), 8):
        out.append({"k": "indep", "d": "ansi", "ss": ss[i : i + 8]})
    ys = fixfam.yaml_inputs()
    for i in range(0, len(ys), 8):
        out.append({"k": "indep_yaml", "ids": [[y[0], y[1], y[2]] for y in ys[i : i + 8]]})
    return out


def run_sel(case, res):
    from sqlfluff.core import FluffConfig, Linter
    from sqlfluff.core.rules import get_ruleset

    table = _ST["table"]
    probe = "select a  from t where a=1 and b is null order by 1\n"
    for rules, exclude in case["combos"]:
        for spaced in (False, True):
            res["n"] += 1
            one = {"k": "sel", "combos": [[rules, exclude]]}
            sep = ", " if spaced else ","
            ov = {"dialect": "ansi"}
            if rules:
                ov["rules"] = sep.join(rules)
            if exclude:
                ov["exclude_rules"] = sep.join(exclude)
            try:
                cfg = FluffConfig(overrides=ov)
                rp = get_ruleset().get_rulepack(config=cfg)
                got = {r.code for r in rp.rules}
            except Exception as e:
                res["fails"].append({"clause": "selection_exception", "features": {"type": type(e).__name__}, "detail": {"msg": str(e)[:200]}, "case": one})
                continue
            want = model_select(rules, exclude, table)
            if got != want:
                res["fails"].append(
                    {
                        "clause": "selection_set",
                        "features": {"spaced": spaced},
                        "detail": {"rules": rules, "exclude": exclude, "extra": sorted(got - want)[:8], "missing": sorted(want - got)[:8]},
                        "case": one,
                    }
                )
            elif not spaced:
                lf = Linter(config=cfg).lint_string(probe)
                rep = {v.rule_code() for v in lf.violations}
                if not rep <= (want | {"PRS", "LXR", "TMP"}):
                    res["fails"].append({"clause": "reported_outside_selection", "features": {}, "detail": {"rules": rules, "exclude": exclude, "outside": sorted(rep - want)}, "case": one})
            if want and len(want) < len(table):
                res["nontrivial"] += 1
                res.setdefault("sample", one)
            res["cls"].add(digest(tuple(sorted(want))))


_PACKS = {}


def packs(lnt_all):
    """per-rule (config, rulepack) built from the same base config as lnt_all."""
    key = id(lnt_all)
    if key not in _PACKS:
        from sqlfluff.core.rules import get_ruleset

        rs = get_ruleset()
        out = {}
        for code in _ST["codes"]:
            cfg = lnt_all.config.copy()
            cfg._configs["core"]["rule_allowlist"] = [code]
            cfg._configs["core"]["rules"] = code
            try:
                out[code] = (cfg, rs.get_rulepack(config=cfg))
            except Exception:
                pass
        _PACKS[key] = out
    return _PACKS[key]


def indep_one(lnt, text, one, res):
    from sqlfluff.core import Linter

    res["n"] += 1
    try:
        lf = lnt.lint_string(text)
        parsed = lnt.parse_string(text)
    except Exception:
        fixfam.bump(res, "exception")
        return
    if lf.tree is None or not parsed.parsed_variants or len(parsed.parsed_variants) != 1:
        return
    pv = parsed.parsed_variants[0]
    if pv.tree is None:
        return
    by = {}
    for v in lf.violations:
        by.setdefault(v.rule_code(), []).append((v.line_no, v.line_pos, v.desc()))
    all_pack = lnt.get_rulepack()
    enabled = {r.code for r in all_pack.rules}
    for code, (cfg, pack) in packs(lnt).items():
        if code not in enabled:
            continue
        try:
            _t, vs, _m, _x = Linter.lint_fix_parsed(pv.tree, config=cfg, rule_pack=pack, fix=False, fname="x", templated_file=pv.templated_file)
        except Exception:
            fixfam.bump(res, "exception_single")
            continue
        mine = sorted((v.line_no, v.line_pos, v.desc()) for v in vs if v.rule_code() == code)
        # the full run de-duplicates in source space; do the same here
        mine = sorted(set(mine))
        theirs = sorted(set(by.get(code, [])))
        if mine != theirs:
            res["fails"].append({"clause": "rule_depends_on_company", "features": {"rule": code}, "detail": {"alone": mine[:4], "in_company": theirs[:4], "text": text[:200]}, "case": one})
    if by:
        res["nontrivial"] += 1
        res.setdefault("sample", one)
    res["cls"].add(digest(tuple(sorted(by))))


def run_case(case):
    res = {"n": 0, "fails": [], "cls": set(), "stats": {}, "nontrivial": 0}
    if case["k"] == "sel":
        run_sel(case, res)
    elif case["k"] == "indep":
        lnt = sq.linter(case["d"], "raw", rules="all")
        for s in case["ss"]:
            indep_one(lnt, s, {"k": "indep", "d": case["d"], "ss": [s]}, res)
    else:
        for one, lnt, text in fixfam.expand({"k": "yaml", "rs": "all", "ids": case["ids"]}):
            indep_one(lnt, text, {"k": "indep_yaml", "ids": one["ids"]}, res)
    return res


def post(agg, tier):
    return {"states": len(agg["classes"]), "transitions": agg["n"], "traces_validated_against_impl": agg["n"]}
