"""C33 Violations are reported once and in source order."""

from __future__ import annotations

from vf import corpus, sq
from vf.core import digest
from vf.props import fixfam, parsefam

LEVEL = "exploration"
RULE = (
    "Jinja skeletons of family T (depth 1, <= 2 items, FOR over [], [1], [1,2] and IF/ELSE/ELIF variants whose literals carry "
    "violations) x 6 contexts x all rules, lint and fix mode; raw G(1)xD(1;WKME) + YAML strings x all rules. Oracle: no two "
    "reported violations share (code, line, pos, description); list sorted by (line, pos). Non-trivial = >= 2 violations reported "
    "(ordering) and, for templates, >= 2 variants or a rendered loop; distinct inputs by construction."
)
ASSUMPTIONS = ["'distinct violation' = (rule code, line, column, description) as shown to the user"]
BOUND = {"quick": "T depth1 len<=32 x 6 ctx; G(1)xD(1;WKME); YAML strings", "thorough": "T depth1 len<=44 x 6 ctx; G(2)xD(1;WKME)"}
FLOOR = {"quick": 3000, "thorough": 20000}
CHUNK = 1


def cases(tier):
    out = fixfam.fix_cases(tier, rulesets_raw=("all",), rulesets_yaml=("all",))
    ml = 32 if tier == "quick" else 44
    ts = [t for t in corpus.t_seqs(1, 2, corpus.T_LITS, max_len=ml) if corpus.has_markup(t)]
    # + tokens spanning 2-3 template slices / templated whitespace (no separating spaces)
    ts = sorted(set(ts) | set(corpus.span_templates(3)), key=lambda s: (len(s), s))
    for i in range(0, len(ts), 8):
        out.append({"k": "jinja", "ts": ts[i : i + 8]})
    return out


def check(lf, add, res, variants_diff_only_in_fixes=None):
    vs = lf.get_violations(filter_ignore=True, filter_warning=False) if hasattr(lf, "get_violations") else lf.violations
    keys = [sq.vt(v) for v in vs]
    seen = {}
    for i, k in enumerate(keys):
        if k in seen:
            a, b = vs[seen[k]], vs[i]
            fa = repr(getattr(a, "fixes", None))
            fb = repr(getattr(b, "fixes", None))
            add("duplicate", {"rule": k[0], "fixes_differ": fa != fb}, {"violation": list(k)})
        else:
            seen[k] = i
    locs = [(k[1], k[2]) for k in keys]
    if locs != sorted(locs):
        add("order", {}, {"locs": locs[:12]})
    return len(keys) >= 2


def run_case(case):
    res = {"n": 0, "fails": [], "cls": set(), "stats": {}, "nontrivial": 0}
    if case["k"] == "jinja":
        items = []
        for t in case["ts"]:
            for ci in range(len(corpus.T_CTX)):
                items.append(({"k": "jinja", "ts": [t], "ctx": ci}, parsefam.get_linter("ansi", "jinja", ci, rules="all"), t))
        if "ctx" in case:
            items = [it for it in items if it[0]["ctx"] == case["ctx"]]
    else:
        items = list(fixfam.expand(case))
    for one, lnt, text in items:
        for mode in ("lint", "fix"):
            res["n"] += 1
            o = dict(one, mode=mode)
            if "mode" in case and case["mode"] != mode:
                continue

            def add(clause, features, detail, _one=o):
                res["fails"].append({"clause": clause, "features": features, "detail": detail, "case": _one})

            try:
                lf = lnt.lint_string(text, fix=(mode == "fix"))
            except Exception:
                fixfam.bump(res, "exception")
                continue
            if check(lf, add, res) and mode == "lint":
                res["nontrivial"] += 1
                res.setdefault("sample", o)
            res["cls"].add(digest(tuple(sq.vt(v) for v in lf.violations)))
    return res
