"""C34 Oversized files are skipped, never parsed or modified (skip model + full replay)."""

from __future__ import annotations

import itertools
import json
import os
import shutil

from vf import cli
from vf.core import case_id, digest, scratch_root

LEVEL = "model_checking"
RULE = (
    "one project directory with big.sql (fixable LT01 statement padded with a comment) and a normal ok.sql (clean or fixable); size of "
    "big.sql in {L-1, L, L+1} measured in bytes and in characters (padding with 'e-acute'/CJK so bytes != chars); "
    "large_file_skip_byte_limit in {0, L}, large_file_skip_char_limit in {0, L}, large_file_skip_fail in {F, T}; commands {lint, fix} "
    "through the CLI with --processes 1 and 2; every combination. Model: skipped iff (byte limit > 0 and bytes > limit) or (char limit > 0 "
    "and chars > limit). Oracle for a skipped file: no violation records, Linter._parse_tokens never called on it (spy), bytes unchanged "
    "after fix, result.files_skipped counts it, exit 1 iff large_file_skip_fail or another file fails; at/below the limit the file is linted "
    "and fixed normally. Every model case is replayed. Non-trivial = the model says the file is skipped."
)
ASSUMPTIONS = ["exit status for the rest of the run is taken from an identical run without big.sql (measured, not predicted)"]
BOUND = {"quick": "3 sizes x 2 units x 2 x 2 x 2 limits/flags x 2 commands x 2 ok-file kinds x processes {1,2}", "thorough": "same"}
FLOOR = {"quick": 50, "thorough": 50}
CHUNK = 1
L = 40


def cases(tier):
    out = []
    for unit, delta, bl, cl, sf, cmd, okkind, procs in itertools.product(("bytes", "chars"), (-1, 0, 1), (0, L), (0, L), (False, True), ("lint", "fix"), ("clean", "fixable"), (1, 2)):
        if procs == 2 and not (delta == 1 and okkind == "fixable"):
            continue
        out.append({"unit": unit, "delta": delta, "bl": bl, "cl": cl, "sf": sf, "cmd": cmd, "ok": okkind, "procs": procs})
        # the same limits set by a NESTED config: big.sql lives in m/ whose .sqlfluff carries the limits
        # while the root config says the opposite (limit <-> no limit)
        if okkind == "fixable" and (bl or cl):
            out.append({"unit": unit, "delta": delta, "bl": bl, "cl": cl, "sf": sf, "cmd": cmd, "ok": okkind, "procs": procs, "where": "nested"})
        # the same sizes for a file with CRLF line endings (3 lines): its size ON DISK counts both bytes of each line end
        if okkind == "fixable" and procs == 1 and bl and not cl and unit == "bytes":
            out.append({"unit": unit, "delta": delta, "bl": bl, "cl": cl, "sf": sf, "cmd": cmd, "ok": okkind, "procs": procs, "eol": "crlf"})
    return out


def big_text(unit, n, eol="lf"):
    if eol == "crlf":
        # three CRLF-terminated lines; n counts every byte / character of the file as stored
        head = "SELECT a  ,b\r\nFROM t\r\n-- " + ("é" if unit == "bytes" else "中")
        used = len(head.encode("utf-8")) if unit == "bytes" else len(head)
        return head + "x" * (n - used - 2) + "\r\n"
    head = "SELECT a  FROM t -- "
    if unit == "bytes":
        # ascii + one 2-byte char: bytes = chars + 1
        body = head + "é"
        pad = n - len(body.encode("utf-8")) - 1
        return body + "x" * pad + "\n"
    body = head + "中"
    pad = n - len(body) - 1
    return body + "x" * pad + "\n"


def run_case(case):
    res = {"n": 1, "fails": [], "cls": set(), "stats": {}, "nontrivial": 0}
    n = L + case["delta"]
    text = big_text(case["unit"], n, case.get("eol", "lf"))
    nbytes, nchars = len(text.encode("utf-8")), len(text)
    assert (nbytes if case["unit"] == "bytes" else nchars) == n, (nbytes, nchars, n)
    skip = (case["bl"] > 0 and nbytes > case["bl"]) or (case["cl"] > 0 and nchars > case["cl"])
    oktext = "SELECT a FROM t\n" if case["ok"] == "clean" else "SELECT b  FROM t\n"
    base = os.path.join(scratch_root(), "c34", case_id(case) + "-" + str(os.getpid()))
    shutil.rmtree(base, ignore_errors=True)
    obs = {}
    for variant in ("with", "without"):
        d = os.path.join(base, variant)
        os.makedirs(d)
        nested = case.get("where") == "nested"
        bigrel = os.path.join("m", "big.sql") if nested else "big.sql"
        with open(os.path.join(d, ".sqlfluff"), "w") as f:
            rb, rc_ = ((0 if case["bl"] else L), (0 if case["cl"] else L)) if nested else (case["bl"], case["cl"])
            f.write(
                "[sqlfluff]\ndialect = ansi\nrules = LT01\nlarge_file_skip_byte_limit = %d\nlarge_file_skip_char_limit = %d\nlarge_file_skip_fail = %s\n"
                % (rb, rc_, case["sf"])
            )
        if nested:
            os.makedirs(os.path.join(d, "m"))
            with open(os.path.join(d, "m", ".sqlfluff"), "w") as f:
                f.write("[sqlfluff]\nlarge_file_skip_byte_limit = %d\nlarge_file_skip_char_limit = %d\n" % (case["bl"], case["cl"]))
        # ok.sql must stay below every limit in play (it is 16-17 bytes; L = 40)
        with open(os.path.join(d, "ok.sql"), "w", encoding="utf-8") as f:
            f.write(oktext)
        if variant == "with":
            with open(os.path.join(d, bigrel), "w", encoding="utf-8", newline="") as f:
                f.write(text)
        args = [case["cmd"], ".", "--processes", str(case["procs"])]
        if case["cmd"] == "lint":
            args += ["--format", "json"]
        spy = []
        from sqlfluff.core import Linter

        orig = Linter._parse_tokens
        orig_lp = Linter.lint_paths
        results = []

        def spy_parse_tokens(tokens, config, fname=None, parse_statistics=False):
            spy.append(os.path.basename(fname or "?"))
            return orig(tokens, config, fname=fname, parse_statistics=parse_statistics)

        def spy_lint_paths(self, *a, **k):
            r = orig_lp(self, *a, **k)
            results.append(r)
            return r

        if case["procs"] == 1:
            Linter._parse_tokens = staticmethod(spy_parse_tokens)
        Linter.lint_paths = spy_lint_paths
        try:
            rc, out, err, exc = cli.run(args, cwd=d)
        finally:
            Linter._parse_tokens = staticmethod(orig)
            Linter.lint_paths = orig_lp
        after = open(os.path.join(d, bigrel), encoding="utf-8", newline="").read() if variant == "with" else None
        recs = None
        if case["cmd"] == "lint":
            try:
                recs = {os.path.basename(r["filepath"]): len(r["violations"]) for r in json.loads(out)}
            except Exception:
                recs = None
        obs[variant] = {"rc": rc, "exc": exc, "after": after, "recs": recs, "spy": list(spy), "skipped": results[0].files_skipped if results else None}
    shutil.rmtree(base, ignore_errors=True)
    w, wo = obs["with"], obs["without"]
    feats = {"limit_kind": "char" if (case["cl"] > 0 and nchars > case["cl"] and not (case["bl"] > 0 and nbytes > case["bl"])) else "byte", "cmd": case["cmd"], "procs": case["procs"]}

    def add(clause, detail):
        res["fails"].append({"clause": clause, "features": dict(feats), "detail": detail})

    if w["exc"]:
        add("cli_exception", {"exc": w["exc"][-300:]})
        return res
    if skip:
        res["nontrivial"] = 1
        if case["procs"] == 1 and "big.sql" in w["spy"]:
            add("skipped_file_was_parsed", {})
        if w["after"] != text:
            add("skipped_file_modified", {"after": w["after"][:100]})
        if w["recs"] is not None and w["recs"].get("big.sql"):
            add("skipped_file_has_violations", {"recs": w["recs"]})
        if w["skipped"] != 1:
            add("not_counted_as_skipped", {"files_skipped": w["skipped"]})
        want_rc = max(wo["rc"], 1 if case["sf"] else 0)
        if w["rc"] != want_rc:
            add("exit_code", {"rc": w["rc"], "want": want_rc, "skip_fail": case["sf"], "rest_rc": wo["rc"]})
    else:
        if w["skipped"] not in (0, None):
            add("counted_skipped_but_within_limit", {"files_skipped": w["skipped"]})
        if case["cmd"] == "lint" and w["recs"] is not None and not w["recs"].get("big.sql"):
            add("within_limit_not_linted", {"recs": w["recs"]})
        if case["cmd"] == "fix" and w["after"] == text:
            add("within_limit_not_fixed", {})
    res["cls"].add(digest((skip, w["rc"], w["skipped"], w["after"] == text)))
    return res


def post(agg, tier):
    return {"states": len(agg["classes"]), "transitions": agg["n"], "traces_validated_against_impl": agg["n"]}
