"""C08 Jinja rendering fidelity: linted SQL is what Jinja renders (differential vs Jinja itself)."""

from __future__ import annotations

from vf import corpus, sq
from vf.core import digest
from vf.props import tplfam

LEVEL = "exploration"
RULE = (
    "every Jinja skeleton of C07's family (T depth 1 <= 2 items up to the length bound, rich items, whitespace-control assignments, "
    "undefined variables in output/if/for/default positions) x 6 contexts, plus marker-free and near-marker files (fast path): "
    "Sigma_c-minus-markers^<=n, 15 near-marker strings bare/prefixed/suffixed, G(1). Oracle: JinjaTemplater's primary rendering == "
    "SandboxedEnvironment(keep_trailing_newline, ext.do).from_string(src, globals=context).render(); if Jinja raises, sqlfluff must "
    "report TMP (or produce no file). Non-trivial = the rendering differs from the source text (something was actually rendered); "
    "distinct (template, context) by construction."
)
ASSUMPTIONS = [
    "the reference environment is built by the harness, independent of sqlfluff's render function, tracer, fast path and undefined stubs",
    "templates using an undefined variable are compared only when sqlfluff reports no TMP violation, or counted as divergent-with-TMP",
]
BOUND = {"quick": "T len<=52 + rich + ws<=1; marker-free Sigma_c^<=2", "thorough": "all T depth1 + ws<=2; marker-free Sigma_c^<=3"}
FLOOR = {"quick": 40000, "thorough": 400000}
CHUNK = 1


def cases(tier):
    out = []
    ts = tplfam.jinja_templates(tier)
    for i in range(0, len(ts), 32):
        out.append({"k": "jinja", "ts": ts[i : i + 32]})
    mf = tplfam.marker_free(tier)
    for i in range(0, len(mf), 64):
        out.append({"k": "jinja", "ts": mf[i : i + 64], "ctxs": [0]})
    return out


_ENV = []


def ref_render(text, ctx):
    from jinja2.sandbox import SandboxedEnvironment

    if not _ENV:
        _ENV.append(SandboxedEnvironment(keep_trailing_newline=True, autoescape=False, extensions=["jinja2.ext.do"]))
    try:
        return _ENV[0].from_string(text, globals=dict(ctx)).render()
    except Exception as e:
        return e


def run_case(case):
    res = {"n": 0, "fails": [], "cls": set(), "stats": {}, "nontrivial": 0}
    for t in case["ts"]:
        for ci in case.get("ctxs", range(len(corpus.T_CTX))):
            res["n"] += 1
            one = {"k": "jinja", "ts": [t], "ctxs": [ci]}
            lnt = tplfam.jinja_linter(ci)
            exp = ref_render(t, corpus.T_CTX[ci])
            try:
                r = sq.render(lnt, t)
            except Exception as e:
                res["stats"]["crash"] = res["stats"].get("crash", 0) + 1
                continue
            tmp = [v for v in r.templater_violations]
            if isinstance(exp, Exception):
                res["stats"]["jinja_raises"] = res["stats"].get("jinja_raises", 0) + 1
                if r.templated_variants and not tmp:
                    res["fails"].append({"clause": "rendered_where_jinja_fails", "features": {"jinja_error": type(exp).__name__}, "detail": {"got": r.templated_variants[0].templated_str[:100], "jinja": str(exp)[:100]}, "case": one})
                continue
            if not r.templated_variants:
                if not tmp:
                    res["fails"].append({"clause": "no_file_no_tmp", "features": {}, "detail": {}, "case": one})
                else:
                    res["stats"]["tmp_no_file"] = res["stats"].get("tmp_no_file", 0) + 1
                    # Jinja renders it but sqlfluff refuses: a fidelity failure unless caused by an undefined variable
                    undefined = any("Undefined jinja template variable" in v.desc() for v in tmp)
                    if not undefined:
                        res["fails"].append({"clause": "tmp_where_jinja_renders", "features": {"msg": tmp[0].desc()[:60]}, "detail": {"jinja": exp[:100]}, "case": one})
                continue
            got = r.templated_variants[0].templated_str
            if got != exp:
                undefined = any("Undefined jinja template variable" in v.desc() for v in tmp)
                try:
                    from jinja2 import meta

                    undeclared = sorted(meta.find_undeclared_variables(_ENV[0].parse(t)) - set(corpus.T_CTX[ci]))
                except Exception:
                    undeclared = []
                res["fails"].append({"clause": "render_differs", "features": {"with_undefined_tmp": undefined, "template_uses_undeclared_name": bool(undeclared)}, "detail": {"got": got[:120], "jinja": exp[:120], "tmp": [v.desc()[:60] for v in tmp][:2]}, "case": one})
            if got != t:
                res["nontrivial"] += 1
                res.setdefault("sample", one)
            res["cls"].add(digest(got))
    return res
