"""C17 Fix and format are idempotent."""

from __future__ import annotations

from vf.core import digest
from vf.props import fixfam

LEVEL = "exploration"
RULE = (
    "same input families as C12 under rule sets {format (the format command's list), layout, all}; YAML strings with own "
    "configs under all rules (thorough: + format). Oracle: fix(fix(x)) == fix(x) as text. Non-trivial = first fix changed "
    "the text; distinct inputs by construction."
)
ASSUMPTIONS = ["inputs whose first run could not be fixed (no tree / template error) are counted, not judged"]
BOUND = {"quick": "G(1)xD(1;WKME)+glue x {layout,all,format}; YAML strings x all", "thorough": "G(2)xD(1;WKME)+G(1)xD(2;WK) x {layout,all,format}; YAML x {all,format}"}
FLOOR = {"quick": 3000, "thorough": 20000}
CHUNK = 1


def cases(tier):
    return fixfam.fix_cases(
        tier, rulesets_raw=("layout", "all", "format"), rulesets_yaml=("all",) if tier == "quick" else ("all", "format"),
        rulesets_fixtures=("all",),
    ) + fixfam.layout_product_cases(("layout", "all")) + fixfam.ruleopts_cases() + fixfam.lt05_product_cases() + fixfam.layout_sweep_cases(("layout",))


def _single_target_over_limit(lnt, *trees):
    """Root-cause label only (never a verdict): some SELECT clause with exactly one target whose one-line
    form 'SELECT [modifier] target' is longer than max_line_length -- LT09 (pull the single target up) and
    LT05 (break the long line) then undo each other on the unchanged tree (known finding)."""
    mll = lnt.config.get("max_line_length") or 0
    if mll <= 0:
        return False
    for tree in trees:
        if tree is None:
            continue
        for sc in tree.recursive_crawl("select_clause"):
            els = [c for c in sc.segments if c.is_type("select_clause_element")]
            if len(els) != 1:
                continue
            try:
                col = max(sc.pos_marker.working_line_pos - 1, 0)
            except Exception:
                col = 0
            if col + len(" ".join(sc.raw.split())) > mll:
                return True
    return False


def oracle(one, lnt, text, lf, fixed, add, res):
    if fixed is None:
        fixfam.bump(res, "not_fixable")
        return False
    if fixfam.has_parse_errors(lf.violations):
        # fix withholds changes on unparsable files (C18); nothing to iterate
        fixfam.bump(res, "input_not_clean")
        return False
    try:
        lf2, fixed2 = fixfam.run_fix(lnt, fixed)
    except Exception as e:
        add("second_run_exception", {"type": type(e).__name__}, {"fixed": fixed[:200], "msg": str(e)[:200]})
        return fixed != text
    if fixed2 is None:
        add("second_run_unfixable", {}, {"fixed": fixed[:300]})
    elif fixed2 != fixed:
        codes = sorted({v.rule_code() for v in lf2.violations if getattr(v, "fixes", None)})
        add(
            "not_idempotent",
            {"rules": ",".join(codes)[:60], "single_target_over_limit": _single_target_over_limit(lnt, lf.tree, lf2.tree)},
            {"first": fixed[:300], "second": fixed2[:300]},
        )
    if fixed != text:
        res["cls"].add(digest((text, fixed)))
        return True
    return False


run_case = fixfam.make_runner(oracle)
