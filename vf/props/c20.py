"""C20 noqa directives suppress exactly the specified violations (reference model + full replay)."""

from __future__ import annotations

import itertools

from vf import sq
from vf.core import digest
from vf.models import noqa as model

LEVEL = "model_checking"
RULE = (
    "A (unit seam IgnoreMask._parse_noqa + ignore_masked_violations + generate_warnings_for_unused): 3 lines; every violation set of "
    "size <= 2 (thorough 3) over lines x {LT01, CP01, PRS}; every ordered placement of <= 2 (thorough: 3 on distinct-or-equal lines) directives from 13 "
    "kinds (bare, code, two codes, name, group, alias glob, PRS, disable/enable of all/code/group) on the lines; x disable_noqa_except in "
    "{unset, LT01, PRS}. B (end to end, Linter.lint_string): every 3-line file over line types {clean, LT01, CP01, unparsable} with <= 2 "
    "directive comments from the same 13 kinds, in '--' and '/* */' syntax; baseline = the same file with disable_noqa=True; expected = "
    "model(baseline, directives); plus disable_noqa (hides nothing) and files that fail to parse/template (source-based mask). Every model "
    "case is replayed against the implementation. Non-trivial = at least one directive hides at least one violation in the model."
)
ASSUMPTIONS = [
    "where two directives could both claim a violation either unused-warning attribution is accepted",
    "under disable_noqa_except only placements whose directives all name explicit rules are judged (a bare noqa is ambiguous there)",
]
BOUND = {"quick": "A: 46 violation sets x 820 placements x 3; B: 64 files x 547 placements x 2 syntaxes", "thorough": "A: 130 sets x (<=3 directives); B same + 5 line types"}
FLOOR = {"quick": 20000, "thorough": 200000}
CHUNK = 1

KINDS = [
    "noqa",
    "noqa:LT01",
    "noqa:CP01",
    "noqa: LT01,CP01",
    "noqa:layout.spacing",
    "noqa:layout",
    "noqa:L00*",
    "noqa:PRS",
    "noqa:disable=all",
    "noqa:disable=LT01",
    "noqa:enable=all",
    "noqa:enable=LT01",
    "noqa:disable=core",
    # a reference that expands followed by a special code that does not (and the reverse order)
    "noqa: LT01,PRS",
    "noqa: PRS,CP01",
    "noqa:disable=LT01,PRS",
]
EXCEPTS = [None, "LT01", "PRS"]
LINES = [1, 2, 3]
CODES = ["LT01", "CP01", "PRS"]
LINE_TYPES = {
    "clean": "SELECT a FROM t;",
    "lt01": "SELECT a  FROM t;",
    "cp01": "SELECT a from t;",
    "prs": "SELECT a b c FROM t;",
    "both": "SELECT a  from t;",
}


def cases(tier):
    out = []
    allv = [(c, l) for l in LINES for c in CODES]
    vsets = [()] + [(v,) for v in allv] + list(itertools.combinations(allv, 2))
    if tier == "thorough":
        vsets += list(itertools.combinations(allv, 3))
    for i, vs in enumerate(vsets):
        for ex in EXCEPTS:
            out.append({"k": "A", "vs": [list(v) for v in vs], "ex": ex, "nd": 2 if tier == "quick" else 3})
    types = ["clean", "lt01", "cp01", "prs"] + (["both"] if tier == "thorough" else [])
    for combo in itertools.product(types, repeat=3):
        for syn in ("--", "/*"):
            out.append({"k": "B", "lines": list(combo), "syn": syn})
    for combo in itertools.product(types, repeat=2):
        out.append({"k": "Bfail", "lines": list(combo)})
    return out


_ST = {}


def setup():
    from sqlfluff.core import FluffConfig, Linter
    from sqlfluff.core.rules import get_ruleset

    cfg = FluffConfig(overrides={"dialect": "ansi"})
    rp = get_ruleset().get_rulepack(config=cfg)
    _ST["refmap"] = {k: set(v) for k, v in rp.reference_map.items()}
    _ST["Linter"] = Linter


def placements(nd):
    slots = [(l, k) for l in LINES for k in range(len(KINDS))]
    yield ()
    for s in slots:
        yield (s,)
    if nd >= 2:
        for a in slots:
            for b in slots:
                if a[0] <= b[0]:
                    yield (a, b)
    if nd >= 3:
        for a in slots:
            for b in slots:
                for c in slots:
                    if a[0] < b[0] < c[0] or (a[0] == b[0] < c[0] and a[1] < b[1]) or (a[0] < b[0] == c[0] and b[1] < c[1]):
                        yield (a, b, c)


def allowed_codes(ex):
    if ex is None:
        return None
    m = dict(_ST["refmap"])
    for s in model.SPECIAL:
        m[s] = {s}
    out = set()
    for r in ex.split(","):
        out |= model.expand(r.strip(), m)
    return out


def run_A(case, res):
    from sqlfluff.core.errors import SQLBaseError
    from sqlfluff.core.rules.noqa import IgnoreMask, NoQaDirective

    class V(SQLBaseError):
        def __init__(s, code, line):
            super().__init__(description=code, line_no=line, line_pos=1)
            s._c = code

        def rule_code(s):
            return s._c

    Linter = _ST["Linter"]
    ex = case["ex"]
    refmap = {k: set(v) for k, v in _ST["refmap"].items()}
    impl_map = Linter.allowed_rule_ref_map(refmap, ex)
    allowed = allowed_codes(ex)
    vs = [tuple(v) for v in case["vs"]]
    only = case.get("only")
    for ds in placements(case["nd"]):
        if only is not None and [list(d) for d in ds] != only:
            continue
        if ex is not None and any("=all" in KINDS[k] or KINDS[k] == "noqa" for _, k in ds):
            continue
        res["n"] += 1
        one = {"k": "A", "vs": case["vs"], "ex": ex, "nd": case["nd"], "only": [list(d) for d in ds]}
        dirs = []
        bad = False
        for l, k in ds:
            d = IgnoreMask._parse_noqa(KINDS[k], l, 0, impl_map)
            if not isinstance(d, NoQaDirective):
                bad = True
                break
            dirs.append(d)
        if bad:
            res["fails"].append({"clause": "directive_not_parsed", "features": {}, "detail": {}, "case": one})
            continue
        mask = IgnoreMask(dirs)
        viols = [V(c, l) for c, l in vs]
        kept = []
        for code in CODES:
            batch = [v for v in viols if v.rule_code() == code]
            if batch:
                kept += mask.ignore_masked_violations(batch)
        got_hidden = {i for i, v in enumerate(viols) if not any(v is k for k in kept)}
        mdirs = [(l, model.restrict(model.parse_directive(KINDS[k], _ST["refmap"]), allowed)) for l, k in ds]
        hid, hiders = model.evaluate(list(vs), mdirs)
        if got_hidden != hid:
            extra = sorted(got_hidden - hid)
            missing = sorted(hid - got_hidden)
            inert = any(p is None for _, p in mdirs)
            res["fails"].append(
                {
                    "clause": "hidden_set",
                    "features": {"over_hidden": bool(extra), "under_hidden": bool(missing), "except_mode": ex is not None, "inert_directive_present": inert},
                    "detail": {"violations": vs, "directives": [(l, KINDS[k]) for l, k in ds], "impl_hidden": sorted(got_hidden), "model_hidden": sorted(hid)},
                    "case": one,
                }
            )
        else:
            warned = {i for i, d in enumerate(dirs) if not d.used}
            for di, (ln, p) in enumerate(mdirs):
                if p is None or p[0] == "enable":
                    continue
                could = [vi for vi in range(len(vs)) if di in hiders[vi]]
                sole = [vi for vi in could if hiders[vi] == {di}]
                if not could and di not in warned:
                    res["fails"].append({"clause": "unused_not_warned", "features": {"except_mode": ex is not None}, "detail": {"violations": vs, "directives": [(l, KINDS[k]) for l, k in ds], "directive": di}, "case": one})
                if sole and di in warned:
                    res["fails"].append({"clause": "used_but_warned", "features": {"except_mode": ex is not None}, "detail": {"violations": vs, "directives": [(l, KINDS[k]) for l, k in ds], "directive": di}, "case": one})
        if hid:
            res["nontrivial"] += 1
            res.setdefault("sample", one)
        res["cls"].add(digest((tuple(vs), tuple(ds), ex, tuple(sorted(hid)))))


def shown(lf):
    """What the user is shown: filtered by ignore mask, warnings kept, unused-noqa warnings added."""
    return lf.get_violations(filter_ignore=True, filter_warning=False, warn_unused_ignores=True)


def vis(lf):
    return sorted((v.rule_code(), v.line_no, v.line_pos) for v in shown(lf) if v.rule_code() != "NOQA")


def run_B(case, res):
    lines = [LINE_TYPES[t] for t in case["lines"]]
    syn = case["syn"]
    lnt = sq.linter("ansi", "raw", rules="LT01,CP01")
    base_lnt = sq.linter("ansi", "raw", rules="LT01,CP01", disable_noqa=True)
    only = case.get("only")
    for ds in placements(2):
        if any(a[0] == b[0] for a, b in itertools.combinations(ds, 2)):
            continue  # one trailing comment per line
        if syn == "/*" and len(ds) == 2 and not case.get("full"):
            continue  # block-comment syntax: all single-directive placements (pairs only in '--' syntax)
        if only is not None and [list(d) for d in ds] != only:
            continue
        res["n"] += 1
        one = {"k": "B", "lines": case["lines"], "syn": syn, "only": [list(d) for d in ds]}
        out = list(lines)
        for l, k in ds:
            c = KINDS[k]
            out[l - 1] += (" -- " + c) if syn == "--" else (" /* " + c + " */")
        text = "\n".join(out) + "\n"
        base = base_lnt.lint_string(text)
        bv = [(v.rule_code(), v.line_no, v.line_pos) for v in shown(base)]
        if any(c == "NOQA" for c, _, _ in bv):
            res["fails"].append({"clause": "noqa_warning_when_disabled", "features": {}, "detail": {"text": text}, "case": one})
        mdirs = [(l, model.parse_directive(KINDS[k], _ST["refmap"])) for l, k in ds]
        hid, hiders = model.evaluate([(c, l) for c, l, _ in bv], mdirs)
        want = sorted(v for i, v in enumerate(bv) if i not in hid)
        lf = lnt.lint_string(text)
        got = vis(lf)
        if got != want:
            res["fails"].append(
                {
                    "clause": "e2e_visible_set",
                    "features": {"over_hidden": len(got) < len(want)},
                    "detail": {"text": text, "want": want, "got": got},
                    "case": one,
                }
            )
        else:
            warned_lines = sorted(v.line_no for v in shown(lf) if v.rule_code() == "NOQA")
            for di, (ln, p) in enumerate(mdirs):
                if p[0] == "enable":
                    continue
                could = [vi for vi in range(len(bv)) if di in hiders[vi]]
                sole = [vi for vi in could if hiders[vi] == {di}]
                if not could and ln not in warned_lines:
                    res["fails"].append({"clause": "e2e_unused_not_warned", "features": {}, "detail": {"text": text, "line": ln}, "case": one})
                if sole and ln in warned_lines:
                    res["fails"].append({"clause": "e2e_used_but_warned", "features": {}, "detail": {"text": text, "line": ln}, "case": one})
        if hid:
            res["nontrivial"] += 1
            res.setdefault("sample", one)
        res["cls"].add(digest((text, tuple(want))))


def run_Bfail(case, res):
    """Files that fail to parse / template: the mask is built from source text."""
    lines = [LINE_TYPES[t] for t in case["lines"]]
    variants = {
        "unbalanced": (sq.linter("ansi", "raw", rules="LT01,CP01"), sq.linter("ansi", "raw", rules="LT01,CP01", disable_noqa=True), "SELECT (a FROM t;"),
        "tmp": (
            sq.linter("ansi", "jinja", rules="LT01,CP01"),
            sq.linter("ansi", "jinja", rules="LT01,CP01", disable_noqa=True),
            "SELECT {{ undefined_var }} FROM t;",
        ),
        "tmp_fatal": (
            sq.linter("ansi", "jinja", rules="LT01,CP01"),
            sq.linter("ansi", "jinja", rules="LT01,CP01", disable_noqa=True),
            "SELECT {% if %} FROM t;",
        ),
    }
    for name, (lnt, base_lnt, bad_line) in variants.items():
        for pos in range(3):
            body = list(lines)
            body.insert(pos, bad_line)
            for ds in placements(1):
                res["n"] += 1
                out = list(body)
                for l, k in ds:
                    out[l - 1] += " -- " + KINDS[k]
                text = "\n".join(out) + "\n"
                one = {"k": "Bfail1", "text": text, "variant": name}
                check_fail_file(lnt, base_lnt, text, ds, one, res)


def check_fail_file(lnt, base_lnt, text, ds, one, res):
    try:
        base = base_lnt.lint_string(text)
        lf = lnt.lint_string(text)
    except Exception:
        res["stats"]["exception"] = res["stats"].get("exception", 0) + 1
        return
    bv = [(v.rule_code(), v.line_no, v.line_pos) for v in shown(base) if v.rule_code() != "NOQA"]
    mdirs = [(l, model.parse_directive(KINDS[k], _ST["refmap"])) for l, k in ds]
    hid, _ = model.evaluate([(c, l) for c, l, _ in bv], mdirs)
    want = sorted(v for i, v in enumerate(bv) if i not in hid)
    got = vis(lf)
    if got != want:
        res["fails"].append({"clause": "e2e_failfile_visible_set", "features": {"variant": one["variant"], "over_hidden": len(got) < len(want)}, "detail": {"text": text, "want": want, "got": got}, "case": one})
    if hid:
        res["nontrivial"] += 1
    res["cls"].add(digest((text, tuple(want))))


def run_case(case):
    res = {"n": 0, "fails": [], "cls": set(), "stats": {}, "nontrivial": 0}
    if case["k"] == "A":
        run_A(case, res)
    elif case["k"] == "B":
        run_B(case, res)
    elif case["k"] == "Bfail":
        run_Bfail(case, res)
    else:
        res["n"] = 1
        name = case["variant"]
        tpl = "raw" if name == "unbalanced" else "jinja"
        # recover placements from the text is not needed: re-derive directives from comments
        ds = []
        for i, line in enumerate(case["text"].split("\n")):
            if " -- noqa" in line:
                ds.append((i + 1, KINDS.index(line.split(" -- ", 1)[1])))
        check_fail_file(sq.linter("ansi", tpl, rules="LT01,CP01"), sq.linter("ansi", tpl, rules="LT01,CP01", disable_noqa=True), case["text"], ds, case, res)
    return res


def post(agg, tier):
    return {"states": len(agg["classes"]), "transitions": agg["n"], "traces_validated_against_impl": agg["n"]}
