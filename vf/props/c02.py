"""C02 Parsing is lossless: leaves == lexer tokens (DESIGN.md §3 C02)."""

from __future__ import annotations

from vf import sq
from vf.core import digest
from vf.props import parsefam

LEVEL = "exploration"
RULE = (
    "token sequences over Sigma_t24 up to length k (ansi) and Sigma_t18+dialect tokens up to 2 (every dialect); every "
    "G(2) derivation with every single deviation D(1) (whitespace, case, delete/dup/swap/truncate/insert, comment, "
    "EOF, CRLF); G(1) in every dialect; every dialect fixture up to the byte bound in its own dialect; Jinja skeletons. "
    "Non-trivial = the tree has >= 3 non-meta leaves (something to lose or reorder); distinct inputs by construction."
)
ASSUMPTIONS = [
    "tokens are compared by (text, source slice, templated slice); metas (indent/dedent/placeholder/EOF) ignored on both sides as the statement allows",
    "Python parser only",
]
BOUND = {
    "quick": "Sigma_t24^<=3; G(1)xD(1)+G(2); 27 dialects x (Sigma_t^<=2 + G(1)); fixtures<=400B; T depth1 len<=30 x 6 ctx",
    "thorough": "Sigma_t24^<=4; G(2)xD(1)+G(1)xD(2)+G(3); dialects x (Sigma_t^<=2 + G(1)xD(1)); fixtures<=2000B; T len<=44",
}
FLOOR = {"quick": 20000, "thorough": 100000}
CHUNK = 2


def cases(tier):
    return parsefam.parse_cases(tier, jinja=True)


def key(seg):
    pm = seg.pos_marker
    return (seg.raw, pm.source_slice.start, pm.source_slice.stop, pm.templated_slice.start, pm.templated_slice.stop)


def check_one(lnt, text, add, res):
    from sqlfluff.core.linter.linter import Linter

    try:
        parsed = lnt.parse_string(text)
    except Exception as e:
        add("exception", {"type": type(e).__name__}, {"msg": str(e)[:300]})
        return
    prs = [v for v in parsed.violations if v.rule_code() == "PRS"]
    for vi, variant in enumerate(parsed.parsed_variants):
        tf = variant.templated_file
        toks, _ = Linter._lex_templated_file(tf, parsed.config)
        if toks is None:
            continue
        tree = variant.tree
        if tree is None:
            vp = [v for v in variant.parsing_violations if v.rule_code() == "PRS"]
            if not vp:
                add("no_tree_no_prs", {}, {"variant": vi})
            # A missing tree means every token was discarded. That is the documented outcome only for
            # unbalanced brackets and for the configured depth / node limits; any other reason (e.g. the
            # parser's own completeness check tripping) is code being lost, however it is reported.
            elif not any(
                v.desc().startswith(("Couldn't find closing bracket", "Found unexpected end bracket", "Maximum parse depth exceeded", "Maximum parse node count exceeded"))
                for v in vp
            ):
                add("no_tree_tokens_discarded", {"reason": vp[0].desc().split(":")[0][:40]}, {"variant": vi, "prs": vp[0].desc()[:200]})
            res["stats"]["no_tree"] = res["stats"].get("no_tree", 0) + 1
            continue
        want = [key(t) for t in toks if not t.is_meta]
        got = [key(t) for t in tree.raw_segments if not t.is_meta]
        if want != got:
            kind = "reordered" if sorted(want) == sorted(got) else ("lost" if len(got) < len(want) else "changed")
            i = next((i for i, (a, b) in enumerate(zip(want, got)) if a != b), min(len(want), len(got)))
            add("leaves", {"kind": kind}, {"variant": vi, "at": i, "want": want[i : i + 3], "got": got[i : i + 3]})
        if tree.raw != tf.templated_str:
            add("raw_text", {}, {"variant": vi, "tree": tree.raw[:100], "templated": tf.templated_str[:100]})
        unp = list(tree.iter_unparsables())
        vprs = [v for v in variant.parsing_violations if v.rule_code() == "PRS"]
        if len(vprs) < len(unp):
            add("prs_count", {}, {"variant": vi, "unparsable": len(unp), "prs": len(vprs)})
        if unp:
            res["stats"]["with_unparsable"] = res["stats"].get("with_unparsable", 0) + 1
            if vi == 0 and not prs:
                add("prs_not_reported", {}, {"unparsable": len(unp)})
        if len(got) >= 3:
            res["nt"] = True
        res["cls"].add(digest(sq.type_shape(tree)))


def run_case(case):
    res = {"n": 0, "fails": [], "cls": set(), "stats": {}, "nontrivial": 0}
    for one, d, tpl, ci, text in parsefam.expand(case):
        res["n"] += 1
        res["nt"] = False

        def add(clause, features, detail, _one=one):
            res["fails"].append({"clause": clause, "features": features, "detail": detail, "case": _one})

        check_one(parsefam.get_linter(d, tpl, ci), text, add, res)
        if res.pop("nt"):
            res["nontrivial"] += 1
            res.setdefault("sample", one)
    return res
