"""C07 Template source maps are consistent for every templater and variant."""

from __future__ import annotations

from vf import corpus, sq
from vf.core import digest
from vf.props import tplfam

LEVEL = "exploration"
RULE = (
    "Jinja: every skeleton of family T (depth 1, <= 2 items; literals, {{v}}, undefined {{u}}, comments, set, if/elif/else, for) up "
    "to the length bound, the 'rich' items (set-block, macro+call, raw) and every assignment of '-' whitespace control to <= k tag "
    "sides, x 6 contexts, EVERY variant yielded by process_with_variants; python format strings (13 pieces^<=n x 3 contexts); "
    "placeholder SQL (pieces^<=n x 12 styles x values configured/not). Oracle: raw slices tile the source in order; templated "
    "slices tile the rendered string; every source slice within the file; literal slices with text map to identical source text. "
    "Non-trivial = file has >= 1 non-literal slice; distinct (template, context) by construction."
)
ASSUMPTIONS = ["only SQLTemplaterError / a TMP violation is accepted as a way of not producing a file (crashes are C04's)"]
BOUND = {"quick": "T len<=52 + rich len<=56 + ws-control<=1 (len<=36); py pieces^<=3; placeholder pieces^<=3", "thorough": "all T depth1 (170k) + rich len<=80 + ws-control<=2 (len<=44); pieces^<=4"}
FLOOR = {"quick": 50000, "thorough": 500000}
CHUNK = 1


def cases(tier):
    out = []
    ts = tplfam.jinja_templates(tier)
    for i in range(0, len(ts), 32):
        out.append({"k": "jinja", "ts": ts[i : i + 32]})
    # a branch whose FORCED rendering raises (so its variant is silently skipped) nested in an outer if without else,
    # followed by an if / elif / else whose unreached branches have tags of different lengths
    ft = failing_variant_templates()
    for i in range(0, len(ft), 16):
        out.append({"k": "jinja", "ts": ft[i : i + 16]})
    ps = tplfam.py_strings(tier)
    for i in range(0, len(ps), 128):
        out.append({"k": "python", "ss": ps[i : i + 128]})
    for st in tplfam.ph_styles():
        hs = tplfam.ph_strings(st, tier)
        for i in range(0, len(hs), 256):
            out.append({"k": "placeholder", "style": st, "ss": hs[i : i + 256]})
    return out


def failing_variant_templates():
    import itertools

    out = []
    raisers = ['{{ 1 + "2" }}', "{{ u.x.y }}", "{{ xs.nope.more }}"]
    tails = [
        "{% if c %}a{% else %}b{% endif %}",
        "{% if not c %}aa{% else %}b{% endif %}",
        "{% if c %}a{% elif d %}bb{% else %}ccc{% endif %}",
        "{% if not c and not d %}a{% else %}bb{% endif %} {% if c %}c{% else %}dd{% endif %}",
    ]
    for oc, ic, r, tail in itertools.product(("c", "d", "not c"), ("c", "not c", "d"), raisers, tails):
        out.append("SELECT 1 {% if " + oc + " %},x {% if " + ic + " %}, " + r + "{% endif %}{% endif %}\nFROM t WHERE " + tail + " = 1\n")
        out.append("{% if " + oc + " %}{% if " + ic + " %}" + r + "{% endif %}{% endif %}" + tail + "\n")
    return out


def items(case):
    k = case["k"]
    if k == "jinja":
        for t in case["ts"]:
            for ci in range(len(corpus.T_CTX)):
                if "ctx" in case and case["ctx"] != ci:
                    continue
                yield {"k": "jinja", "ts": [t], "ctx": ci}, tplfam.jinja_linter(ci), t
    elif k == "python":
        for s in case["ss"]:
            for ci in range(len(tplfam.PY_CTXS)):
                if "ctx" in case and case["ctx"] != ci:
                    continue
                yield {"k": "python", "ss": [s], "ctx": ci}, tplfam.py_linter(ci), s
    else:
        for s in case["ss"]:
            for vi in range(len(tplfam.PH_VALUES)):
                if "vi" in case and case["vi"] != vi:
                    continue
                yield {"k": "placeholder", "style": case["style"], "ss": [s], "vi": vi}, tplfam.ph_linter(case["style"], vi), s


def run_case(case):
    from sqlfluff.core.errors import SQLTemplaterError, SQLFluffSkipFile

    res = {"n": 0, "fails": [], "cls": set(), "stats": {}, "nontrivial": 0}
    for one, lnt, text in items(case):
        res["n"] += 1

        def add(clause, features, detail, _one=one):
            res["fails"].append({"clause": clause, "features": features, "detail": detail, "case": _one})

        templater = lnt.templater
        try:
            variants = list(templater.process_with_variants(in_str=text, fname="f.sql", config=lnt.config, formatter=None))
        except (SQLTemplaterError, SQLFluffSkipFile):
            res["stats"]["templater_error"] = res["stats"].get("templater_error", 0) + 1
            continue
        except Exception as e:
            res["stats"]["crash_" + type(e).__name__] = res["stats"].get("crash_" + type(e).__name__, 0) + 1
            continue
        nt = False
        first = None
        for vi, (tf, errs) in enumerate(variants):
            if tf is None:
                continue
            if first is None:
                first = tf
            if tf.source_str != text:
                add("source_str", {}, {"variant": vi})
            un = vi > 0 and one.get("k") == "jinja" and tplfam.if_inside_for(tf)

            def addv(clause, features, detail, _un=un):
                # structural feature of the failing execution: an alternate (unreached-code) variant of a
                # template with an if nested inside a for loop -- the known variant-rectification call site
                add(clause, dict(features, unreached_variant_with_if_inside_for=True) if _un else features, detail)

            tplfam.check_slices(tf, addv, vi)
            if any(s.slice_type != "literal" for s in tf.sliced_file):
                nt = True
            res["cls"].add(digest(tuple((s.slice_type, s.source_slice.start, s.source_slice.stop, s.templated_slice.start, s.templated_slice.stop) for s in tf.sliced_file)))
        if len(variants) > 1:
            res["stats"]["multi_variant"] = res["stats"].get("multi_variant", 0) + 1
        # variant 0 equals what process() returns
        try:
            tf0, _ = templater.process(in_str=text, fname="f.sql", config=lnt.config, formatter=None)
            if first is not None and tf0 is not None and (tf0.templated_str != first.templated_str or tf0.sliced_file != first.sliced_file):
                add("variant0_differs_from_process", {}, {})
        except Exception:
            pass
        if nt:
            res["nontrivial"] += 1
            res.setdefault("sample", one)
    return res
