"""C12 Fixes are lexically stable: re-lexing the fixed text gives the fixed tree's tokens."""

from __future__ import annotations

from vf.core import digest
from vf.props import fixfam

LEVEL = "exploration"
RULE = (
    "every G(1) derivation (thorough: G(2)) with every single deviation of kinds W,K,M,E plus the operator-adjacent list, "
    "fixed under rule sets {layout, all, format}; every distinct pass_str/fail_str/fix_str of the rule YAML fixtures with its "
    "own configs and dialect, fixed under all rules. Non-trivial = the fix changed the text; distinct inputs by construction."
)
ASSUMPTIONS = ["raw and YAML-configured templaters; token kind = whitespace/newline/comment/code", "Python lexer"]
BOUND = {"quick": "G(1)xD(1;WKME)+glue x {layout,all,format}; YAML strings x all", "thorough": "G(2)xD(1;WKME)+G(1)xD(2;WK) x {layout,all,format}; YAML x {all,format}"}
FLOOR = {"quick": 3000, "thorough": 20000}
CHUNK = 1


def cases(tier):
    return fixfam.fix_cases(
        tier, rulesets_raw=("layout", "all", "format"), rulesets_yaml=("all",) if tier == "quick" else ("all", "format"),
        rulesets_fixtures=("all",) if tier == "quick" else ("all", "layout"), rulesets_fixture_gaps=("all",),
    ) + fixfam.layout_product_cases(("all",)) + fixfam.ruleopts_cases() + fixfam.layout_sweep_cases(("layout",))


def run_case(case):
    res = {"n": 0, "fails": [], "cls": set(), "stats": {}, "nontrivial": 0}
    for one, lnt, text in fixfam.expand(case):
        res["n"] += 1

        def add(clause, features, detail, _one=one):
            res["fails"].append({"clause": clause, "features": features, "detail": detail, "case": _one})

        try:
            lf, fixed = fixfam.run_fix(lnt, text)
        except Exception as e:
            res["stats"]["fix_exception"] = res["stats"].get("fix_exception", 0) + 1
            continue  # crashes are C04's business
        if fixed is None:
            continue
        tree = lf.tree
        if lf.templated_file.source_str != lf.templated_file.templated_str:
            # templated file: compare on the templated (tree) text
            target = tree.raw
        else:
            target = tree.raw
        tt = [(s.raw, fixfam.kind_of(s)) for s in tree.raw_segments if s.raw and not s.is_meta]
        try:
            toks, _ = fixfam.lex_text(lnt, target)
        except Exception as e:
            add("relex_exception", {"type": type(e).__name__}, {"msg": str(e)[:200]})
            continue
        rt = [(s.raw, fixfam.kind_of(s)) for s in toks if s.raw and not s.is_meta]

        def merge_ws(seq):
            # A run of plain whitespace may legitimately be several tokens in a templated tree (the
            # lexer splits whitespace at template slice boundaries, before any fix); it is one token
            # when the text is lexed on its own. Compare runs, not their internal boundaries.
            out = []
            for raw, kind in seq:
                if kind == "ws" and out and out[-1][1] == "ws":
                    out[-1] = (out[-1][0] + raw, "ws")
                else:
                    out.append((raw, kind))
            return out

        tt, rt = merge_ws(tt), merge_ws(rt)
        if tt != rt:
            i = next((i for i, (a, b) in enumerate(zip(tt, rt)) if a != b), min(len(tt), len(rt)))
            kind = "glued" if len(rt) < len(tt) else ("split" if len(rt) > len(tt) else "kind")
            pair = ""
            if kind == "glued" and i + 1 < len(tt) and len(tt[i][0]) + len(tt[i + 1][0]) <= 6:
                pair = tt[i][0] + "|" + tt[i + 1][0]  # the two fixed-tree tokens that re-lex as one
            add("relex", {"kind": kind, "glued_pair": pair}, {"fixed": target[:200], "tree": tt[max(0, i - 1) : i + 3], "relex": rt[max(0, i - 1) : i + 3]})
        if fixed != text:
            res["nontrivial"] += 1
            res.setdefault("sample", one)
            res["cls"].add(digest((text, fixed)))
    return res
