"""C32 Linting is read-only and repeatable (engine E2: explicit-state search over operation histories)."""

from __future__ import annotations

import itertools
import os
import shutil

from vf import hist
from vf.core import case_id, digest, scratch_root

LEVEL = "exploration"
RULE = (
    "operations = {lint (Linter.lint_paths), parse (parse_path), render (render_file), lint with disable_noqa_except=LT01, CLI `lint`} x 4 files "
    "(plain fixable with a noqa comment; Jinja with if/for blocks; placeholder-templated file in a sub-directory with its own .sqlfluff; "
    "inline-dialect tsql file) + {lint, lint with disable_noqa_except, CLI lint} x a file with glob noqa comments on an unparsable line = 23 operations; EVERY history of length <= 2 (thorough: <= 3) is executed in a fresh child of a pristine "
    "zygote on a fresh copy of the project. Oracle after every operation: bytes, mtime, inode and mode of every project file unchanged, no "
    "file created or left behind; the operation's result (violation records / tree / rendered text / exit code) equals the result of the "
    "same operation in a fresh process. Non-trivial = history of length >= 2."
)
ASSUMPTIONS = ["process-wide state that could leak (block tracker, config caches, dialect registry, reference maps, logging) is observed only through results, as the statement requires"]
BOUND = {"quick": "23 ops: all 552 histories of length <= 2", "thorough": "all 12719 histories of length <= 3"}
FLOOR = {"quick": 400, "thorough": 9000}
CHUNK = 1
TIMEOUT = 900  # per case; fresh child processes are slow when the machine is loaded

FILES = {
    "plain.sql": "SELECT a  from t -- noqa: CP01\nSELECT b  FROM u\n",
    "jinja.sql": "SELECT {% if c %}a{% else %}b{% endif %} {% for x in [1, 2] %}, {{ x }}{% endfor %}  FROM t\n",
    "ph/ph.sql": "SELECT a  FROM t WHERE b = :p\n",
    "tsql.sql": "-- sqlfluff:dialect:tsql\nSELECT [a]  from t\n",
    # glob noqa on a line with a parse error: what a glob expands to depends on the rule reference map
    "glob.sql": "SELECT a b c FROM t -- noqa: P*,L*\nSELECT b  FROM u -- noqa: C*\n",
}
FNAMES = list(FILES)
OPKINDS = ["lint", "parse", "render", "lint_dne", "cli_lint"]
OPS = [(k, f) for k in OPKINDS for f in FNAMES if f != "glob.sql" or k in ("lint", "lint_dne", "cli_lint")]


def cases(tier):
    depth = 2 if tier == "quick" else 3
    out = []
    for L in range(1, depth + 1):
        for seq in itertools.product(range(len(OPS)), repeat=L):
            out.append({"k": "h1", "seq": list(seq)})
    return out


def build(d):
    os.makedirs(os.path.join(d, "ph"))
    with open(os.path.join(d, ".sqlfluff"), "w") as f:
        f.write("[sqlfluff]\ndialect = ansi\nrules = LT01,CP01\n[sqlfluff:templater:jinja:context]\nc = True\n")
    with open(os.path.join(d, "ph", ".sqlfluff"), "w") as f:
        f.write("[sqlfluff]\ntemplater = placeholder\n[sqlfluff:templater:placeholder]\nparam_style = colon\np = 1\n")
    for n, t in FILES.items():
        with open(os.path.join(d, n), "w") as f:
            f.write(t)


def fs_fingerprint(d):
    out = []
    for dp, dn, fn in os.walk(d):
        dn.sort()
        for f in sorted(fn):
            p = os.path.join(dp, f)
            st = os.stat(p)
            out.append((os.path.relpath(p, d), open(p, "rb").read(), st.st_ino, st.st_mtime_ns, st.st_mode))
    return out


def do_op(op):
    from sqlfluff.core import FluffConfig, Linter

    kind, fname = op
    if kind == "cli_lint":
        from vf import cli

        rc, out, err, exc = cli.run(["lint", fname, "--format", "json"])
        import json

        try:
            recs = [(v["code"], v["start_line_no"], v["start_line_pos"], v["description"]) for r in json.loads(out) for v in r["violations"]]
        except Exception:
            recs = out[:300]
        return ("cli", rc, recs, bool(exc))
    ov = {"disable_noqa_except": "LT01"} if kind == "lint_dne" else None
    lnt = Linter(config=FluffConfig.from_root(overrides=ov))
    if kind in ("lint", "lint_dne"):
        res = lnt.lint_paths((fname,))
        return (kind, [(v["code"], v["start_line_no"], v["start_line_pos"], v["description"], bool(v.get("fixes"))) for r in res.as_records() for v in r["violations"]])
    if kind == "parse":
        out = []
        for p in lnt.parse_path(fname):
            tree = p.root_variant().tree if p.root_variant() else None
            # to_tuple (not stringify): block uuids of template placeholders are random per run
            out.append((tree.to_tuple(show_raw=True, include_meta=True) if tree is not None else None, [(v.rule_code(), v.line_no, v.line_pos, v.desc()) for v in p.violations]))
        return ("parse", out)
    r = lnt.render_file(fname, lnt.config)
    return ("render", [tf.templated_str for tf in r.templated_variants], [v.desc() for v in r.templater_violations])


def _run_history(d, seq):
    build(d)
    os.chdir(d)
    base_fp = fs_fingerprint(d)
    out = []
    for i in seq:
        try:
            r = do_op(OPS[i])
        except Exception as e:
            r = ("exception", type(e).__name__, str(e)[:200])
        fp = fs_fingerprint(d)
        changed = None
        if fp != base_fp:
            a = {x[0]: x[1:] for x in base_fp}
            b = {x[0]: x[1:] for x in fp}
            changed = sorted(set(a) ^ set(b)) + sorted(k for k in a if k in b and a[k] != b[k])
        out.append((digest(r), repr(r)[:400], changed))
    return out


def setup():
    hist.start_zygote()


_FRESH = {}


def prepare(tier):
    """Main process, before the pool: the fresh-process result of each single operation."""
    import pickle

    hist.start_zygote()
    base = os.path.join(scratch_root(), "c32fresh")
    shutil.rmtree(base, ignore_errors=True)
    out = {}
    for i in range(len(OPS)):
        out[i] = hist.in_child("vf.props.c32", "_run_history", os.path.join(base, "fresh%d" % i, "proj"), [i])[0]
        # a fresh run repeated must agree with itself, otherwise the differential is meaningless
        again = hist.in_child("vf.props.c32", "_run_history", os.path.join(base, "again%d" % i, "proj"), [i])[0]
        if again[0] != out[i][0]:
            print("BROKEN-HARNESS: operation %r is not reproducible in fresh processes" % (OPS[i],))
            raise SystemExit(2)
    shutil.rmtree(base, ignore_errors=True)
    with open(os.path.join(scratch_root(), "c32_fresh.pkl"), "wb") as f:
        pickle.dump(out, f)


def fresh(i, base):
    if not _FRESH:
        import pickle

        p = os.path.join(scratch_root(), "c32_fresh.pkl")
        if os.path.exists(p):
            _FRESH.update(pickle.load(open(p, "rb")))
    if i not in _FRESH:
        _FRESH[i] = hist.in_child("vf.props.c32", "_run_history", os.path.join(base, "fresh%d" % i, "proj"), [i])[0]
    return _FRESH[i]


def run_case(case):
    res = {"n": 0, "fails": [], "cls": set(), "stats": {}, "nontrivial": 0}
    base = os.path.join(scratch_root(), "c32", case_id(case) + "-" + str(os.getpid()))
    shutil.rmtree(base, ignore_errors=True)
    os.makedirs(base)
    try:
        if case["k"] == "h1":
            seqs = [tuple(case["seq"])]
        else:
            seqs = []
            for L in range(1, case["depth"] + 1):
                for rest in itertools.product(range(len(OPS)), repeat=L - 1):
                    seqs.append((case["first"],) + rest)
        for n, seq in enumerate(seqs):
            res["n"] += 1
            one = {"k": "h1", "seq": list(seq)}
            got = hist.in_child("vf.props.c32", "_run_history", os.path.join(base, "h%d" % n, "proj"), list(seq))
            shutil.rmtree(os.path.join(base, "h%d" % n), ignore_errors=True)
            for pos, (i, (dg, rep, changed)) in enumerate(zip(seq, got)):
                if changed:
                    res["fails"].append({"clause": "files_modified", "features": {"op": OPS[i][0]}, "detail": {"history": [OPS[j] for j in seq[: pos + 1]], "changed": changed}, "case": one})
                f = fresh(i, base)
                if dg != f[0]:
                    res["fails"].append(
                        {
                            "clause": "result_depends_on_history",
                            "features": {"op": OPS[i][0], "prev_op": OPS[seq[pos - 1]][0] if pos else None},
                            "detail": {"history": [OPS[j] for j in seq[: pos + 1]], "after_history": rep[:300], "fresh": f[1][:300]},
                            "case": one,
                        }
                    )
                    break
            if len(seq) >= 2:
                res["nontrivial"] += 1
                res.setdefault("sample", one)
            res["cls"].add(digest(tuple(g[0] for g in got)))
    finally:
        shutil.rmtree(base, ignore_errors=True)
    return res
