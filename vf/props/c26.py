"""C26 Writing fixed files is atomic and faithful (engine E4: fault / crash enumeration of the write path)."""

from __future__ import annotations

import errno
import itertools
import os
import pickle
import shutil
import stat
import sys
import tempfile as _real_tempfile

from vf.core import _big, case_id, digest, scratch_root

LEVEL = "fault_enumeration"
RULE = (
    "file content {ascii, utf-8 with non-ascii, utf-8 with BOM, utf-16} x mode {0644, 0600, 0755, 0444} x fixed-file suffix {'', '_fixed'} x {1, 2} "
    "files, linted once with Linter.lint_paths(fix=True, retain_files=True) and persisted with LintingResult.persist_changes (the same LintedFile.persist_tree the runner calls for apply_fixes) in a forked child per execution. A dry run records the filesystem operation log of "
    "_safe_create_replace_file (stat, mkstemp, write, flush, fileno, fsync, close, chmod, move, and the cleanup exists/remove); then for EVERY "
    "operation index: fail-at-i with each of EIO, ENOSPC, EACCES, EXDEV; die-before-i and die-after-i (os._exit in a forked child, no cleanup "
    "runs); and a power-loss model over every prefix of the log x 3 torn-write patterns (unsynced bytes kept / cut to the synced prefix / "
    "empty). Oracle after every execution: the target holds exactly its old bytes or exactly its new bytes; after a failed (not crashed) "
    "write no temp file remains and the error propagates; on success mode, BOM and decoded text are as specified and with a suffix the "
    "original is untouched (bytes, inode, mtime); with two files the first stays fixed when the second fails; trace monitor: rename only "
    "after write+flush+fsync of the complete content, chmod before rename. Non-trivial = a fault point that was actually reached."
)
ASSUMPTIONS = [
    "power loss is a model over the recorded operation log (write = buffered, fsync = durable, rename = atomic and durable only for fsynced content)",
    "shutil.move on one filesystem is one atomic rename",
]
BOUND = {"quick": "4 contents x 2 modes (0644, 0444; thorough: 4) x 2 suffixes x {1,2} files x every op index x (4 errnos + 2 crash points) + power-loss prefixes x 3", "thorough": "same"}
FLOOR = {"quick": 1000, "thorough": 1000}
CHUNK = 1
TIMEOUT = 900  # per case; fresh child processes are slow when the machine is loaded

CONTENTS = {
    "ascii": ("utf-8", b"SELECT a  FROM t\n"),
    "utf8": ("utf-8", "SELECT 'é中'  FROM t\n".encode("utf-8")),
    "utf8sig": ("utf-8-sig", b"\xef\xbb\xbf" + b"SELECT a  FROM t\n"),
    "utf16": ("utf-16", "SELECT 'é'  FROM t\n".encode("utf-16")),
}
MODES = [0o644, 0o600, 0o755, 0o444]
ERRNOS = [errno.EIO, errno.ENOSPC, errno.EACCES, errno.EXDEV]


def cases(tier):
    out = []
    modes = MODES if tier == "thorough" else [0o644, 0o444]
    for c, m, sfx, nfiles in itertools.product(CONTENTS, modes, ("", "_fixed"), (1, 2)):
        out.append({"content": c, "mode": m, "suffix": sfx, "nfiles": nfiles})
    return out


class Plan:
    """What to do at which operation index. kind in {None, 'fail', 'die_before', 'die_after'}"""

    def __init__(self, kind=None, index=-1, err=errno.EIO, file_no=0):
        self.kind, self.index, self.err, self.file_no = kind, index, err, file_no
        self.log = []
        self.armed = False
        self.call_no = -1

    def op(self, name, fn, *a, **k):
        if not self.armed:
            return fn(*a, **k)
        i = len(self.log)
        self.log.append(name)
        hit = self.call_no == self.file_no and i == self.index
        if hit and self.kind == "die_before":
            os._exit(137)
        if hit and self.kind == "fail":
            raise OSError(self.err, os.strerror(self.err) + " (injected)")
        if hit and self.kind == "interrupt":
            # a signal-delivered exception: Ctrl-C (KeyboardInterrupt) or a SIGTERM handler calling sys.exit
            raise (KeyboardInterrupt() if self.err == 0 else SystemExit(1))
        r = fn(*a, **k)
        if hit and self.kind == "die_after":
            os._exit(137)
        return r


class OsProxy:
    def __init__(self, plan):
        self._p = plan
        self.path = PathProxy(plan)

    def __getattr__(self, name):
        real = getattr(os, name)
        if name in ("stat", "chmod", "fsync", "remove", "rename", "replace", "unlink"):
            return lambda *a, **k: self._p.op(name, real, *a, **k)
        return real


class PathProxy:
    def __init__(self, plan):
        self._p = plan

    def __getattr__(self, name):
        real = getattr(os.path, name)
        if name == "exists":
            return lambda *a, **k: self._p.op("exists", real, *a, **k)
        return real


class ShutilProxy:
    def __init__(self, plan):
        self._p = plan

    def __getattr__(self, name):
        real = getattr(shutil, name)
        if name == "move":
            return lambda *a, **k: self._p.op("move", real, *a, **k)
        return real


class FileProxy:
    def __init__(self, plan, f):
        self._p, self._f = plan, f
        self.name = f.name
        self.file = InnerFileProxy(plan, f.file)

    def flush(self):
        return self._p.op("flush", self._f.flush)

    def fileno(self):
        return self._f.fileno()

    def __enter__(self):
        self._f.__enter__()
        return self

    def __exit__(self, *exc):
        return self._p.op("close", self._f.__exit__, *exc)

    def __getattr__(self, name):
        return getattr(self._f, name)


class InnerFileProxy:
    def __init__(self, plan, f):
        self._p, self._f = plan, f

    def write(self, data):
        return self._p.op("write", self._f.write, data)

    def __getattr__(self, name):
        return getattr(self._f, name)


class TempfileProxy:
    def __init__(self, plan):
        self._p = plan

    def NamedTemporaryFile(self, *a, **k):
        f = self._p.op("mkstemp", _real_tempfile.NamedTemporaryFile, *a, **k)
        return FileProxy(self._p, f)

    def __getattr__(self, name):
        return getattr(_real_tempfile, name)


_PREP = {}


def prepare_result(d, case):
    """Lint once (in the worker); the forked children only execute the write path."""
    from sqlfluff.core import FluffConfig, Linter

    old = os.getcwd()
    os.chdir(d)
    try:
        enc = CONTENTS[case["content"]][0]
        cfg = FluffConfig(overrides={"dialect": "ansi", "rules": "LT01", "encoding": enc})
        lnt = Linter(config=cfg)
        files = tuple(sorted(f for f in os.listdir(d) if f.endswith(".sql") and "_fixed" not in f))
        return lnt.lint_paths(files, fix=True, apply_fixes=False, retain_files=True, fixed_file_suffix=case["suffix"])
    finally:
        os.chdir(old)


def _execute(d, case, plan_args):
    """Runs in a forked child: persist the prepared fixes into directory d under the fault plan."""
    from sqlfluff.core.linter import linted_file as lfmod

    plan = Plan(*plan_args)
    lfmod.os = OsProxy(plan)
    lfmod.shutil = ShutilProxy(plan)
    lfmod.tempfile = TempfileProxy(plan)
    orig = lfmod.LintedFile._safe_create_replace_file
    logs = []

    def wrapped(input_path, output_path, write_buff, encoding):
        plan.call_no += 1
        plan.armed = True
        plan.log = []
        try:
            return orig(input_path, output_path, write_buff, encoding)
        finally:
            plan.armed = False
            logs.append((os.path.basename(output_path), list(plan.log), write_buff, encoding))

    lfmod.LintedFile._safe_create_replace_file = staticmethod(wrapped)
    os.chdir(d)
    exc = None
    try:
        _PREP["result"].persist_changes(formatter=None, fixed_file_suffix=case["suffix"])
    except BaseException as e:  # noqa
        exc = type(e).__name__ + ":" + str(getattr(e, "errno", ""))
    return {"exc": exc, "logs": logs}


def run_child(d, case, plan_args):
    """fork, run _execute, return (status, result|None)."""
    r, w = os.pipe()
    pid = os.fork()
    if pid == 0:
        os.close(r)
        try:
            out = _big(_execute, d, case, plan_args)
            os.write(w, pickle.dumps(out))
        except BaseException as e:  # noqa
            os.write(w, pickle.dumps({"harness_error": repr(e)}))
        finally:
            os._exit(0)
    os.close(w)
    data = b""
    while True:
        chunk = os.read(r, 65536)
        if not chunk:
            break
        data += chunk
    os.close(r)
    _, status = os.waitpid(pid, 0)
    code = os.waitstatus_to_exitcode(status)
    return code, (pickle.loads(data) if data else None)


def setup_dir(base, case, tag):
    d = os.path.join(base, tag)
    os.makedirs(d)
    enc, raw = CONTENTS[case["content"]]
    names = ["a.sql", "b.sql"][: case["nfiles"]]
    meta = {}
    for n in names:
        p = os.path.join(d, n)
        with open(p, "wb") as f:
            f.write(raw)
        os.chmod(p, case["mode"])
        st = os.stat(p)
        meta[n] = (raw, st.st_ino, st.st_mtime_ns)
    return d, names, meta


def snapshot(d):
    out = {}
    for n in sorted(os.listdir(d)):
        p = os.path.join(d, n)
        st = os.stat(p)
        out[n] = (open(p, "rb").read(), stat.S_IMODE(st.st_mode), st.st_ino, st.st_mtime_ns)
    return out


def power_loss_states(log_ops, write_buff_bytes, old_bytes):
    """Model: yields (prefix_len, pattern, target_content) for every prefix and torn pattern."""
    for n in range(len(log_ops) + 1):
        for pattern in ("full", "synced_prefix", "empty"):
            buffered = b""
            durable = b""
            target = old_bytes
            for op in log_ops[:n]:
                if op == "write":
                    buffered = write_buff_bytes
                elif op == "fsync":
                    durable = buffered
                elif op == "move":
                    if durable == buffered:
                        target = durable
                    else:
                        target = {"full": buffered, "synced_prefix": durable, "empty": b""}[pattern]
            yield n, pattern, target


def run_case(case):
    res = {"n": 0, "fails": [], "cls": set(), "stats": {}, "nontrivial": 0}
    base = os.path.join(scratch_root(), "c26", case_id(case) + "-" + str(os.getpid()))
    shutil.rmtree(base, ignore_errors=True)
    os.makedirs(base)
    enc, raw = CONTENTS[case["content"]]

    def add(clause, features, detail):
        res["fails"].append({"clause": clause, "features": features, "detail": detail})

    try:
        # ---- dry run
        d0, _, _ = setup_dir(base, case, "prep")
        _PREP["result"] = prepare_result(d0, case)
        d, names, meta = setup_dir(base, case, "dry")
        code, out = run_child(d, case, (None,))
        res["n"] += 1
        if code != 0 or out is None or out.get("harness_error"):
            add("dry_run_failed", {}, {"code": code, "out": str(out)[:300]})
            return res
        if out["exc"]:
            add("success_path_raised", {}, {"exc": out["exc"]})
            return res
        snap = snapshot(d)
        logs = out["logs"]
        if len(logs) != case["nfiles"]:
            add("files_written_count", {}, {"logs": [(l[0], l[1]) for l in logs]})
            return res
        new_bytes = {}
        for n in names:
            target = n if not case["suffix"] else n.replace(".sql", case["suffix"] + ".sql")
            if target not in snap:
                add("target_missing_after_success", {}, {"dir": sorted(snap)})
                return res
            content, mode, ino, mt = snap[target]
            new_bytes[n] = content
            want_text = raw.decode(enc).replace("  FROM", " FROM")
            try:
                got_text = content.decode(enc)
            except Exception:
                got_text = None
            if got_text != want_text:
                add("fixed_content", {"content": case["content"]}, {"got": content[:60], "want": want_text})
            if case["content"] == "utf8sig" and not content.startswith(b"\xef\xbb\xbf"):
                add("bom_lost", {}, {"got": content[:10]})
            if mode != case["mode"]:
                add("mode_not_preserved", {"suffix": bool(case["suffix"])}, {"got": oct(mode), "want": oct(case["mode"])})
            if case["suffix"]:
                o = snap.get(n)
                if o is None or o[0] != raw or o[2] != meta[n][1] or o[3] != meta[n][2]:
                    add("original_touched_with_suffix", {}, {})
            extra = [f for f in snap if f not in names and not f.endswith(case["suffix"] + ".sql")] if case["suffix"] else [f for f in snap if f not in names]
            if extra:
                add("temp_file_left_after_success", {}, {"files": extra})
        ops = logs[0][1]
        # ---- trace monitor on the success log
        for fname, oplog, buff, e2 in logs:
            if "move" in oplog:
                mi = oplog.index("move")
                for need in ("write", "flush", "fsync"):
                    if need not in oplog[:mi]:
                        add("trace_monitor", {"missing_before_rename": need}, {"log": oplog})
                if "write" in oplog and "fsync" in oplog and oplog.index("fsync") < max(i for i, o in enumerate(oplog) if o == "write"):
                    add("trace_monitor", {"missing_before_rename": "fsync_after_last_write"}, {"log": oplog})
                if "chmod" in oplog and oplog.index("chmod") > mi:
                    add("trace_monitor", {"missing_before_rename": "chmod"}, {"log": oplog})
            else:
                add("trace_monitor", {"missing_before_rename": "no_move"}, {"log": oplog})
        # ---- power-loss model over the recorded log
        first = names[0]
        for n, pattern, target in power_loss_states(ops, new_bytes[first], raw if not case["suffix"] else None):
            res["n"] += 1
            if target is not None and target not in (raw, new_bytes[first]):
                add("power_loss_torn_target", {"pattern": pattern}, {"prefix": ops[:n], "target": target[:40]})
            if target is None:
                pass
        # with a suffix the target did not exist before: old state = absent
        if case["suffix"]:
            for n, pattern, target in power_loss_states(ops, new_bytes[first], b"<absent>"):
                if target not in (b"<absent>", new_bytes[first]):
                    add("power_loss_torn_target", {"pattern": pattern}, {"prefix": ops[:n], "target": target[:40]})
        # ---- fault and crash enumeration: every op index of every file
        for file_no in range(case["nfiles"]):
            oplog = logs[file_no][1]
            fname = names[file_no]
            target = fname if not case["suffix"] else fname.replace(".sql", case["suffix"] + ".sql")
            for idx in range(len(oplog)):
                plans = (
                    [("fail", idx, e, file_no) for e in ERRNOS]
                    # interrupted here by KeyboardInterrupt (err=0) / SystemExit (err=1): still a failed write
                    + [("interrupt", idx, 0, file_no), ("interrupt", idx, 1, file_no)]
                    + [("die_before", idx, 0, file_no), ("die_after", idx, 0, file_no)]
                )
                for plan in plans:
                    res["n"] += 1
                    tag = "f%d_%d_%s_%d" % (file_no, idx, plan[0], plan[2])
                    d2, _, meta2 = setup_dir(base, case, tag)
                    code, out2 = run_child(d2, case, plan)
                    snap2 = snapshot(d2)
                    feats = {"kind": plan[0], "op": oplog[idx], "errno": errno.errorcode.get(plan[2], "") if plan[0] == "fail" else ""}
                    reached = (code == 137) if plan[0].startswith("die") else (out2 is not None and out2.get("exc") is not None)
                    if reached:
                        res["nontrivial"] += 1
                    if out2 is not None and out2.get("harness_error"):
                        add("harness_error", feats, {"err": out2["harness_error"]})
                        continue
                    # target: old or new, never anything else
                    tcontent = snap2[target][0] if target in snap2 else None
                    old = raw if not case["suffix"] else None
                    if tcontent not in (old, new_bytes[fname]):
                        add("target_neither_old_nor_new", feats, {"target": (tcontent or b"")[:40], "log": oplog[: idx + 1]})
                    # original with suffix untouched
                    if case["suffix"] and (fname not in snap2 or snap2[fname][0] != raw):
                        add("original_touched_with_suffix", feats, {})
                    if plan[0] in ("fail", "interrupt"):
                        if plan[0] == "interrupt":
                            feats["errno"] = "KeyboardInterrupt" if plan[2] == 0 else "SystemExit"
                        if out2 is None or out2.get("exc") is None:
                            if oplog[idx] not in ("exists", "remove"):
                                add("injected_error_swallowed", feats, {"out": str(out2)[:200]})
                        legit = set(names) | {n.replace(".sql", case["suffix"] + ".sql") for n in names}
                        leftovers = [f for f in snap2 if f not in legit]
                        if leftovers:
                            add("temp_file_left_after_failed_write", feats, {"files": leftovers, "log": oplog[: idx + 1]})
                        if case["nfiles"] == 2 and file_no == 1:
                            t0 = names[0] if not case["suffix"] else names[0].replace(".sql", case["suffix"] + ".sql")
                            if t0 not in snap2 or snap2[t0][0] != new_bytes[names[0]]:
                                add("first_file_not_fixed_when_second_fails", feats, {})
                    res["cls"].add(digest((feats["kind"], feats["op"], feats["errno"], tcontent == new_bytes[fname])))
                    shutil.rmtree(d2, ignore_errors=True)
        res["sample"] = {"case": case, "op_log": ops}
    finally:
        shutil.rmtree(base, ignore_errors=True)
    return res
