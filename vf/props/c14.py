"""C14 Layout fixes change only whitespace."""

from __future__ import annotations

import collections

from vf import corpus, sq
from vf.core import digest
from vf.props import fixfam

LEVEL = "exploration"
RULE = (
    "G(k)xD(1;WKME)+operator list under rules=layout with the default config and with one layout option deviating at a time "
    "(comma position, operator position, indent unit, tab size, max line length, implicit indents, trailing comments); YAML "
    "strings of the LT rules with their own configs and all YAML strings under rules=layout. Non-trivial = the fix "
    "changed the text; distinct (input, config) pairs by construction."
)
ASSUMPTIONS = ["tokens compared after lexing input and output with the same dialect lexer"]
BOUND = {"quick": "G(1)xD(1;WKME)+glue x 1 default + G(1)+glue x 9 layout configs; YAML strings x layout", "thorough": "G(2)xD(1;WKME) x default, G(1)xD(1) x 9 configs; YAML x layout"}
FLOOR = {"quick": 2000, "thorough": 10000}
CHUNK = 1

LAYOUT_CFGS = [
    {"layout": {"type": {"comma": {"line_position": "leading"}}}},
    {"layout": {"type": {"binary_operator": {"line_position": "trailing"}}}},
    {"indentation": {"indent_unit": "tab"}},
    {"indentation": {"tab_space_size": 2}},
    {"core": {"max_line_length": 20}},
    {"core": {"max_line_length": 40}},
    {"indentation": {"allow_implicit_indents": True}},
    {"indentation": {"trailing_comments": "after"}},
    {"indentation": {"indented_joins": True, "indented_using_on": False}},
]


def cases(tier):
    out = fixfam.fix_cases(tier, rulesets_raw=("layout",), rulesets_yaml=("layout",), rulesets_fixtures=("layout",), rulesets_fixture_gaps=("layout",))
    base = sorted(set(corpus.G(1)) | set(fixfam.GLUE)) if tier == "quick" else fixfam.raw_strings("quick")
    for cfg in LAYOUT_CFGS:
        for i in range(0, len(base), 16):
            out.append({"k": "strs", "d": "ansi", "rs": "layout", "ss": base[i : i + 16], "cfg": cfg})
    return out + fixfam.layout_product_cases(("layout",)) + fixfam.lt05_product_cases(("layout",)) + fixfam.layout_sweep_cases(("layout",))


def oracle(one, lnt, text, lf, fixed, add, res):
    if fixed is None:
        return False
    if fixed == text:
        return False
    try:
        a, _ = fixfam.lex_text(lnt, text.replace("\r\n", "\n"))
        b, _ = fixfam.lex_text(lnt, fixed.replace("\r\n", "\n"))
    except Exception:
        return True
    ca = [s.raw for s in a if fixfam.kind_of(s) == "code" and not s.is_meta]
    cb = [s.raw for s in b if fixfam.kind_of(s) == "code" and not s.is_meta]
    if ca != cb:
        i = next((i for i, (x, y) in enumerate(zip(ca, cb)) if x != y), min(len(ca), len(cb)))
        add("code_tokens_changed", {"new_double_dash": ("--" in fixed and "--" not in text)}, {"fixed": fixed[:300], "in": ca[max(0, i - 1) : i + 3], "out": cb[max(0, i - 1) : i + 3]})
    ma = collections.Counter(s.raw for s in a if fixfam.kind_of(s) == "comment")
    mb = collections.Counter(s.raw for s in b if fixfam.kind_of(s) == "comment")
    if ma != mb:
        add("comments_changed", {"new_double_dash": ("--" in fixed and "--" not in text)}, {"fixed": fixed[:300], "in": sorted(ma.elements())[:4], "out": sorted(mb.elements())[:4]})
    # NOTE: the relative order of comments and code tokens is deliberately not compared: the
    # statement fixes the code-token sequence and the comment multiset only (LT04 moves a comma
    # past a trailing comment by design). An earlier clause that did compare it was a false alarm.
    res["cls"].add(digest((text, fixed)))
    return True


run_case = fixfam.make_runner(oracle)
