"""C30 Edits are applied to disjoint source ranges exactly once (reference model + full replay)."""

from __future__ import annotations

import itertools

from vf.core import digest
from vf.models import patches as model

LEVEL = "model_checking"
RULE = (
    "source 'abcdef'; every split into <= 3 raw slices typed literal / block_start (source-only) / comment (source-only) / templated; every "
    "admissible patch (source range [i,j], 0<=i<=j<=6, replacement in {'', 'X'} (thorough: + 'YY'), category literal/source per "
    "generate_source_patches' keep rules); patch sets = variant 1 with <= 2 patches x variant 2 with <= 1 patch (thorough: 2 x 2), fed to the "
    "real merge_source_patches -> _slice_source_file_using_patches -> _build_up_fixed_source_string. Oracle: exists a pairwise-disjoint subset S "
    "with output == model.apply(S) and every dropped patch conflicts with another input patch. Every model case is replayed against the "
    "implementation. Non-trivial = >= 2 distinct patches of which at least two conflict or touch."
)
ASSUMPTIONS = ["patch admissibility mirrors the documented keep rules; inadmissible (inverted) patches are C10's subject"]
BOUND = {"quick": "len-6 source, <=3 raw slices, replacements {'',X}, (<=2)+(<=1) patches", "thorough": "replacements {'',X,YY}, (<=2)+(<=2) patches"}
FLOOR = {"quick": 100000, "thorough": 1000000}
CHUNK = 1
SRC = "abcdef"
N = len(SRC)


def slicings():
    out = []
    for k in (1, 2, 3):
        for cuts in itertools.combinations(range(1, N), k - 1):
            bounds = [0] + list(cuts) + [N]
            for types in itertools.product(["literal", "block_start", "templated", "comment"], repeat=k):
                if all(t != "literal" for t in types):
                    continue
                if any(types[i] == "literal" and types[i + 1] == "literal" for i in range(k - 1)):
                    continue
                out.append([(bounds[i], bounds[i + 1], types[i]) for i in range(k)])
    return out


def cases(tier):
    from vf import corpus

    out = [{"k": "slicing", "segs": s, "tier": tier} for s in slicings()]
    # patch sets produced by real fixes (all variants merged) on templated files
    ml = 40 if tier == "quick" else 48
    ts = [t for t in corpus.t_seqs(1, 2, corpus.T_LITS, max_len=ml) if corpus.has_markup(t)]
    # + tokens spanning 2-3 template slices / templated whitespace (no separating spaces)
    ts = sorted(set(ts) | set(corpus.span_templates(3)), key=lambda s: (len(s), s))
    for i in range(0, len(ts), 8):
        out.append({"k": "real", "ts": ts[i : i + 8]})
    dl = depth_loops()
    for i in range(0, len(dl), 4):
        out.append({"k": "real", "ts": dl[i : i + 4], "rules": "LT02"})
        out.append({"k": "real", "ts": dl[i : i + 4]})
        # a non-default number of rendering variants (1 = the root variant only) must not change how edits are merged
        out.append({"k": "real", "ts": dl[i : i + 4], "rules": "LT02", "rvl": 1})
        out.append({"k": "real", "ts": dl[i : i + 4], "rvl": 2})
    return out


def depth_loops():
    """Loop bodies that open / close a bracket or a CASE: the SAME source line renders at a different nesting
    depth on each iteration, so one variant yields several edits for one source position."""
    out = []
    openers = ["(\n", "f({{ x }},\n", "coalesce(a,\n", "CASE WHEN a THEN\n"]
    closers = {"(\n": ")\n", "f({{ x }},\n": ")\n", "coalesce(a,\n": ")\n", "CASE WHEN a THEN\n": "END\n"}
    for op in openers:
        for it in ("[1, 2]", "[1, 2, 3]"):
            for ind in ("", "    ", "  "):
                for tail in ("0\n", "    0\n"):
                    out.append(
                        "SELECT\n    f(\n{% for x in " + it + " %}\n" + ind + op + "{% endfor %}\n" + tail
                        + "{% for x in " + it + " %}\n" + ind + closers[op] + "{% endfor %}\n    ) AS y\nFROM t\n"
                    )
    return out


def run_real(case, res):
    from vf import corpus, sq
    from vf.props import fixfam

    for t in case["ts"]:
        for ci in range(len(corpus.T_CTX)):
            if "ctx" in case and case["ctx"] != ci:
                continue
            res["n"] += 1
            one = {"k": "real", "ts": [t], "ctx": ci, **({"rules": case["rules"]} if case.get("rules") else {}), **({"rvl": case["rvl"]} if case.get("rvl") else {})}
            ov = {"render_variant_limit": case["rvl"]} if case.get("rvl") else {}
            lnt = sq.linter("ansi", "jinja", rules=case.get("rules", "all"), configs=sq.jinja_ctx_configs(corpus.T_CTX[ci]), **ov)
            try:
                lf, fixed = fixfam.run_fix(lnt, t)
            except Exception:
                continue
            if fixed is None or not lf.source_patches:
                continue
            pats = [(p.source_slice.start, p.source_slice.stop, p.fixed_raw) for p in lf.source_patches]
            inverted = any(i > j for i, j, _ in pats)
            if len(pats) > 12:
                res["stats"]["too_many_patches"] = res["stats"].get("too_many_patches", 0) + 1
                continue
            if inverted:
                res["fails"].append({"clause": "real_patch_inverted_range", "features": {"inverted": inverted}, "detail": {"patches": pats, "fixed": fixed[:200]}, "case": one})
                continue
            verdict, S = model.explain(lf.templated_file.source_str, fixed, pats)
            if verdict is not True:
                res["fails"].append({"clause": "real_not_a_disjoint_application", "features": {}, "detail": {"patches": pats, "fixed": fixed[:200]}, "case": one})
            if len(pats) >= 2:
                res["nontrivial"] += 1
            res["cls"].add(digest(fixed))


def admissible(i, j, segs, cat):
    if j == i:
        seg = [s for s in segs if s[0] <= i < s[1]]
        if not seg:
            return True
        if seg[0][2] == "literal":
            return True
        return i == seg[0][0]
    touched = [s for s in segs if (s[0] < j and s[1] > i)]
    if all(s[2] == "literal" for s in touched):
        return True
    if cat == "source":
        return len(touched) == 1 and (touched[0][0], touched[0][1]) == (i, j)
    return False


def run_case(case):
    from sqlfluff.core.linter.linted_file import LintedFile
    from sqlfluff.core.linter.patch import FixPatch, merge_source_patches
    from sqlfluff.core.templaters.base import RawFileSlice

    res = {"n": 0, "fails": [], "cls": set(), "stats": {}, "nontrivial": 0}
    if case["k"] == "real":
        run_real(case, res)
        return res
    segs = [tuple(s) for s in case["segs"]]
    thorough = case.get("tier") == "thorough"
    reps = ["", "X", "YY"] if thorough else ["", "X"]
    so = [RawFileSlice(SRC[a:b], t, a) for a, b, t in segs if t in ("block_start", "comment")]
    cands = []
    for i in range(N + 1):
        for j in range(i, N + 1):
            # insertions (i == j) always come with two different texts, so two edits of one variant can
            # target the same zero-length range with different replacements
            for r in reps if (i < j or thorough) else reps + ["Y"]:
                if i == j and r == "":
                    continue
                for cat in ("literal", "source"):
                    if admissible(i, j, segs, cat):
                        if cat == "source" and not (j > i and any((a, b) == (i, j) and t != "literal" for a, b, t in segs)):
                            continue
                        cands.append((i, j, r, cat))
    cands = sorted(set(cands))
    v1s = [()] + [(c,) for c in cands] + list(itertools.combinations(cands, 2))
    v2s = [()] + [(c,) for c in cands] + (list(itertools.combinations(cands, 2)) if thorough and len(cands) <= 40 else [])
    only = case.get("only")

    def mk(c):
        return FixPatch(slice(0, 0), c[2], c[3], slice(c[0], c[1]), "", SRC[c[0] : c[1]])

    for v1 in v1s:
        for v2 in v2s:
            if not v1 and not v2:
                continue
            if only is not None and [list(map(list, v1)), list(map(list, v2))] != only:
                continue
            res["n"] += 1
            bufs = [sorted([mk(c) for c in v1], key=lambda p: p.source_slice.start), [mk(c) for c in v2]]
            try:
                merged = merge_source_patches(bufs)
                sl = LintedFile._slice_source_file_using_patches(merged, list(so), SRC)
                out = LintedFile._build_up_fixed_source_string(sl, merged, SRC)
            except Exception as e:
                res["fails"].append({"clause": "exception", "features": {"type": type(e).__name__}, "detail": {"msg": str(e)[:200]}, "case": {"k": "slicing", "segs": case["segs"], "only": [v1, v2]}})
                continue
            pats = [c[:3] for c in v1 + v2]
            verdict, S = model.explain(SRC, out, pats)
            if verdict is not True:
                res["fails"].append(
                    {
                        "clause": "not_a_disjoint_application" if verdict is False else "dropped_nonconflicting_patch",
                        "features": {},
                        "detail": {"patches_v1": v1, "patches_v2": v2, "output": out},
                        "case": {"k": "slicing", "segs": case["segs"], "only": [v1, v2], "tier": case.get("tier")},
                    }
                )
            u = set(pats)
            if len(u) >= 2 and any(model.conflict(a, b) or a[1] == b[0] or b[1] == a[0] for a, b in itertools.combinations(u, 2)):
                res["nontrivial"] += 1
            res["cls"].add(digest(out))
    res.setdefault("sample", {"k": "slicing", "segs": case["segs"]})
    return res


def post(agg, tier):
    return {"states": len(agg["classes"]), "transitions": agg["n"], "traces_validated_against_impl": agg["n"]}
