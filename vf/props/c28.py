"""C28 Parse output is a faithful serialisation of the tree."""

from __future__ import annotations

import ast
import json
import os
import re

from vf import cli, corpus, sq
from vf.core import digest, scratch_root
from vf.props import parsefam

LEVEL = "exploration"
RULE = (
    "parse family (Sigma_t24^<=k ansi, G(1)xD(1)+G(2), every dialect x (Sigma_t^<=2 + G(1)), fixtures <= bound in own dialect, Jinja "
    "skeletons): tree.as_record with {show_raw} x {include_meta} x {code_only} x {include_position}, and sqlfluff.parse; CLI `parse` in "
    "human / json / yaml format with and without --include-meta / --code-only on a file family; 36 (thorough 436) Jinja files whose if / elif / else branches hold different SQL (bare, inside a loop, in a WHERE clause) through "
    "the CLI human format, where EVERY 'Variant N' block must list exactly the leaves of that variant's tree. Oracle: flattening the record in document "
    "order gives exactly [(type path, raw)] of the tree's leaves (metas per flag, non-code dropped under code_only); concatenated raws == "
    "rendered SQL (without code_only); positions equal the leaf's pos_marker. Non-trivial = tree has a node with two children of the same "
    "type (the list-vs-dict branch of the serialiser) or >= 5 leaves."
)
ASSUMPTIONS = ["document order of a JSON/YAML mapping is its key order (both serialisers preserve insertion order)"]
BOUND = {"quick": "parse family quick + 24 CLI files x 3 formats x 3 flag sets", "thorough": "parse family thorough"}
FLOOR = {"quick": 15000, "thorough": 80000}
CHUNK = 2

POS_KEYS = {"start_line_no", "start_line_pos", "start_file_pos", "end_line_no", "end_line_pos", "end_file_pos"}


def cases(tier):
    out = parsefam.parse_cases(tier, jinja=True)
    files = corpus.D(corpus.G(0), 1, "WM")[:16] + ["SELECT a b c FROM t\n", "SELECT (a FROM t\n", "SELECT a, a, a FROM t, t\n", "", "\n", "SELECT 'é'\n", "SELECT a -- c\n/* d */ FROM t\n", ";;\n"]
    for i in range(0, len(files), 4):
        out.append({"k": "cli", "files": files[i : i + 4]})
    # Jinja files through the CLI: every rendering variant printed by the human format must be THAT variant's tree
    tj = jinja_cli_files()
    if tier != "quick":
        tj += [t for t in corpus.t_seqs(1, 2, corpus.T_LITS, max_len=40) if corpus.has_markup(t) and ("else" in t or "elif" in t)][:400]
    for i in range(0, len(tj), 4):
        out.append({"k": "clij", "files": tj[i : i + 4]})
    return out


def jinja_cli_files():
    """Files whose unreached branches hold different SQL, so every rendering variant has a different tree."""
    import itertools

    fr = ["a", "b, c", "a + 1", "1"]
    out = []
    for a, b in itertools.permutations(fr, 2):
        out.append("SELECT {% if c %}" + a + "{% else %}" + b + "{% endif %} FROM t\n")
        out.append("SELECT 1{% for x in xs %}, {% if c %}" + a + "{% else %}" + b + "{% endif %}{% endfor %} FROM t\n")
    for a, b, c3 in itertools.permutations(fr[:3], 3):
        out.append("SELECT {% if not c %}" + a + "{% elif d %}" + b + "{% else %}" + c3 + "{% endif %} FROM t\n")
    for a, b in itertools.permutations(["a = 1", "b IS NULL", "a IN (1, 2)"], 2):
        out.append("SELECT a FROM t WHERE {% if c %}" + a + "{% else %}" + b + "{% endif %}\n")
    return out


def flatten(rec, path=()):
    """record -> [(path, raw, posdict|None)] leaves in document order"""
    out = []
    if rec is None:
        return out
    pos = {k: rec[k] for k in rec if k in POS_KEYS}
    for k, v in rec.items():
        if k in POS_KEYS:
            continue
        if isinstance(v, str):
            out.append((path + (k,), v, pos or None))
        elif v is None:
            out.append((path + (k,), None, pos or None))
        elif isinstance(v, dict):
            out += flatten_children(v, path + (k,))
        elif isinstance(v, list):
            for e in v:
                out += flatten(e, path + (k,))
    return out


def flatten_children(d, path):
    """a dict un-nested from a list of single records: each key is a child (with shared position keys absent)"""
    out = []
    # position keys cannot be distinguished per child once un-nested; they belong to children individually
    for k, v in d.items():
        if k in POS_KEYS:
            continue
        out += flatten({k: v}, path)
    return out


def tree_leaves(seg, include_meta, code_only, path=()):
    p = path + (seg.get_type(),)
    if not seg.segments:
        if seg.is_meta and not include_meta:
            return []
        if code_only and not seg.is_code:
            return []
        if seg.is_meta and hasattr(seg, "source_str"):
            # documented: template placeholders are shown with their *source* text
            return [(p, seg.source_str, seg)]
        return [(p, seg.raw, seg)]
    if code_only and not seg.is_code:
        return []
    out = []
    for c in seg.segments:
        out += tree_leaves(c, include_meta, code_only, p)
    return out


def check_record(rec, tree, include_meta, code_only, with_pos, add, label, rendered):
    a = [(p, r) for p, r, _ in flatten(rec) if r is not None]
    empties = [(p, r) for p, r, _ in flatten(rec) if r is None]
    b = [(p, r) for p, r, _ in tree_leaves(tree, include_meta, code_only)]
    if [x[1] for x in a] != [x[1] for x in b]:
        i = next((i for i, (x, y) in enumerate(zip(a, b)) if x[1] != y[1]), min(len(a), len(b)))
        add("leaf_texts", {"view": label}, {"record": [x[1] for x in a][max(0, i - 2) : i + 3], "tree": [x[1] for x in b][max(0, i - 2) : i + 3]})
        return
    if a != b:
        i = next(i for i, (x, y) in enumerate(zip(a, b)) if x != y)
        add("leaf_paths", {"view": label}, {"record": a[i], "tree": b[i]})
    if not code_only and not include_meta and "".join(x[1] for x in a) != rendered:
        add("concat", {"view": label}, {"got": "".join(x[1] for x in a)[:100], "want": rendered[:100]})


def has_dup_children(seg):
    if not seg.segments:
        return False
    ts = [c.get_type() for c in seg.segments if not c.is_meta]
    return len(ts) != len(set(ts)) or any(has_dup_children(c) for c in seg.segments)


def run_cli(case, res):
    d = os.path.join(scratch_root(), f"c28-{os.getpid()}")
    os.makedirs(d, exist_ok=True)
    lnt = sq.linter("ansi", "raw")
    for text in case["files"]:
        one = {"k": "cli", "files": [text]}
        fn = os.path.join(d, "f%s.sql" % digest(text))
        with open(fn, "w", newline="") as f:
            f.write(text)

        def add(clause, features, detail, _one=one):
            res["fails"].append({"clause": clause, "features": features, "detail": detail, "case": _one})

        parsed = lnt.parse_string(text)
        tree = parsed.parsed_variants[0].tree if parsed.parsed_variants else None
        for flags in ([], ["--include-meta"], ["--code-only"]):
            im, co = "--include-meta" in flags, "--code-only" in flags
            for fmt in ("json", "yaml", "human"):
                res["n"] += 1
                rc, out, err, exc = cli.run(["parse", fn, "--dialect", "ansi", "--templater", "raw", "--format", fmt] + flags, cwd=d)
                if exc:
                    add("cli_exception", {"format": fmt}, {"exc": exc[-300:]})
                    continue
                if tree is None:
                    continue
                label = fmt + "".join(flags)
                if fmt in ("json", "yaml"):
                    try:
                        if fmt == "json":
                            doc = json.loads(out)
                        else:
                            import yaml

                            doc = yaml.safe_load(out)
                        rec = doc[0]["segments"]
                    except Exception as e:
                        add("cli_output_unparsable", {"format": fmt}, {"err": repr(e)[:100], "out": out[:200]})
                        continue
                    check_record(rec, tree, im, co, im, add, label, text.replace("\r\n", "\n"))
                else:
                    raws = []
                    for line in out.splitlines():
                        m = re.match(r"^\[L:\s*\d+, P:\s*\d+\]\s*\|(\s*)([\w\[\]]+):\s+('.*'|\".*\")\s*$", line)
                        if m:
                            try:
                                raws.append(ast.literal_eval(m.group(3)))
                            except Exception:
                                pass
                    want = [r for p, r, s in tree_leaves(tree, True, co) if (not s.is_meta) or False]
                    # human output prints metas without a quoted raw; compare non-empty leaves only
                    got = [r for r in raws if r != ""]
                    want = [r for r in want if r != ""]
                    if got != want:
                        add("human_leaf_texts", {"flags": "".join(flags)}, {"got": got[:8], "want": want[:8]})
        if tree is not None:
            res["nontrivial"] += 1
            res.setdefault("sample", one)


HUMAN_LINE = re.compile(r"^\[L:\s*\d+, P:\s*\d+\]\s*\|(\s*)([\w\[\]() ]+):\s+('.*'|\".*\")\s*$")


def human_blocks(out):
    """human `parse` output -> list of lists of quoted raws, one list per 'Variant N:' block (or one block)."""
    blocks, cur = [], None
    for line in out.splitlines():
        if re.match(r"^Variant \d+:\s*$", line):
            cur = []
            blocks.append(cur)
            continue
        m = HUMAN_LINE.match(line)
        if m:
            if cur is None:
                cur = []
                blocks.append(cur)
            try:
                cur.append(ast.literal_eval(m.group(3)))
            except Exception:
                pass
    return blocks


def run_clij(case, res):
    d = os.path.join(scratch_root(), f"c28j-{os.getpid()}")
    os.makedirs(d, exist_ok=True)
    with open(os.path.join(d, ".sqlfluff"), "w") as f:
        f.write("[sqlfluff]\ndialect = ansi\ntemplater = jinja\n[sqlfluff:templater:jinja:context]\nc = True\nd = True\nv = 1\ns = x\ne = y\nxs = [1, 2]\n")
    from sqlfluff.core import FluffConfig, Linter

    old = os.getcwd()
    os.chdir(d)
    try:
        lnt = Linter(config=FluffConfig.from_path(d))
    finally:
        os.chdir(old)
    for text in case["files"]:
        one = {"k": "clij", "files": [text]}
        fn = os.path.join(d, "f%s.sql" % digest(text))
        with open(fn, "w", newline="") as f:
            f.write(text)

        def add(clause, features, detail, _one=one):
            res["fails"].append({"clause": clause, "features": features, "detail": detail, "case": _one})

        parsed = lnt.parse_string(text, fname=fn)
        trees = [v.tree for v in parsed.parsed_variants]
        if not trees or any(t is None for t in trees):
            res["stats"]["no_tree"] = res["stats"].get("no_tree", 0) + 1
            continue
        for flags in ([], ["--code-only"]):
            co = "--code-only" in flags
            res["n"] += 1
            rc, out, err, exc = cli.run(["parse", fn, "--format", "human"] + flags, cwd=d)
            if exc:
                add("cli_exception", {"format": "human"}, {"exc": exc[-300:]})
                continue
            blocks = human_blocks(out)
            if not blocks and len(trees) == 1:
                blocks = [[]]  # nothing but whitespace / metas: no quoted leaf line and no 'Variant' header
            if len(blocks) != len(trees):
                add("human_variant_count", {"flags": "".join(flags)}, {"blocks": len(blocks), "variants": len(trees)})
                continue
            for vi, (got, tree) in enumerate(zip(blocks, trees)):
                want = [r for p, r, sg in tree_leaves(tree, True, co) if not sg.is_meta and r != ""]
                got = [r for r in got if r != ""]
                if got != want:
                    add("human_leaf_texts", {"flags": "".join(flags), "variant": min(vi, 1), "variants": min(len(trees), 2)}, {"variant": vi, "got": got[:10], "want": want[:10]})
                    break
        if len(trees) >= 2:
            res["nontrivial"] += 1
            res.setdefault("sample", one)
        res["cls"].add(digest((text, len(trees))))


def run_case(case):
    res = {"n": 0, "fails": [], "cls": set(), "stats": {}, "nontrivial": 0}
    if case["k"] == "cli":
        run_cli(case, res)
        return res
    if case["k"] == "clij":
        run_clij(case, res)
        return res
    for one, d, tpl, ci, text in parsefam.expand(case):
        res["n"] += 1
        lnt = parsefam.get_linter(d, tpl, ci)

        def add(clause, features, detail, _one=one):
            res["fails"].append({"clause": clause, "features": features, "detail": detail, "case": _one})

        try:
            parsed = lnt.parse_string(text)
        except Exception:
            res["stats"]["exception"] = res["stats"].get("exception", 0) + 1
            continue
        if not parsed.parsed_variants or parsed.parsed_variants[0].tree is None:
            continue
        v0 = parsed.parsed_variants[0]
        tree = v0.tree
        rendered = v0.templated_file.templated_str
        for im in (False, True):
            for co in (False, True):
                try:
                    rec = tree.as_record(show_raw=True, include_meta=im, code_only=co)
                except Exception as e:
                    add("as_record_exception", {"type": type(e).__name__}, {"msg": str(e)[:200]})
                    continue
                check_record(rec, tree, im, co, False, add, f"meta={im},code_only={co}", rendered)
        # positions
        try:
            rec = tree.as_record(show_raw=True, include_meta=True, include_position=True)
            fl = [(p, r, pos) for p, r, pos in flatten(rec) if r is not None]
            tl = tree_leaves(tree, True, False)
            if len(fl) == len(tl):
                for (p, r, pos), (_, _, seg) in zip(fl, tl):
                    if pos is not None and seg.pos_marker is not None:
                        want = seg.pos_marker.to_source_dict()
                        if any(pos.get(k) != want.get(k) for k in pos):
                            add("position", {}, {"leaf": r, "record": pos, "marker": want})
                            break
            else:
                add("leaf_count_with_position", {}, {"record": len(fl), "tree": len(tl)})
        except Exception as e:
            add("as_record_exception", {"type": type(e).__name__, "with": "position"}, {"msg": str(e)[:200]})
        if has_dup_children(tree) or len(tree.raw_segments) >= 5:
            res["nontrivial"] += 1
            res.setdefault("sample", one)
        res["cls"].add(digest(sq.type_shape(tree)))
    return res
