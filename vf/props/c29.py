"""C29 Dialect definitions are complete (engine E5: explicit-state walk of grammar objects + lexer totality)."""

from __future__ import annotations

import unicodedata

from vf import corpus
from vf.core import digest

LEVEL = "exploration"
RULE = (
    "for each of the 28 bundled dialects: breadth-first search over every grammar element reachable from the root segment (nodes = grammar "
    "objects, segment classes, parsers; edges = any Matchable / segment class / Ref name found in the object's attributes, match_grammar, "
    "bracket sets) -- states and transitions counted; every Ref (incl. keyword refs) must resolve via dialect.ref, simple() must return on "
    "every node. Lexer totality: every code point in [0, 0x2FF], one representative per Unicode general category and boundary points, alone "
    "and embedded ('a?b'), lexed by every dialect: tokens concatenate to the input, nothing raises. Non-trivial = a dialect whose walk "
    "visited >= 500 nodes / a lexed string that produced an unlexable or >= 2 tokens."
)
ASSUMPTIONS = ["reachability is over-approximated by walking every attribute of every reachable grammar object (no grammar is skipped because of runtime conditions)"]
BOUND = {"quick": "28 dialects: full reachable graph; 0x300 + category representatives code points x {alone, embedded} x 28 dialects", "thorough": "same + code points up to 0x2FFF step 1"}
FLOOR = {"quick": 20000, "thorough": 100000}
CHUNK = 1


def codepoints(tier):
    cps = set(range(0, 0x300 if tier == "quick" else 0x3000))
    seen = set()
    for cp in range(0, 0x110000, 97):
        if 0xD800 <= cp <= 0xDFFF:
            continue
        cat = unicodedata.category(chr(cp))
        if cat not in seen:
            seen.add(cat)
            cps.add(cp)
    cps |= {0xD7FF, 0xE000, 0xFFFD, 0xFFFE, 0xFFFF, 0x10000, 0x10FFFF, 0x2028, 0x2029, 0xFEFF, 0x200B, 0x1F600}
    return sorted(cps)


def cases(tier):
    out = []
    for d in corpus.dialects():
        out.append({"k": "graph", "d": d})
        cps = codepoints(tier)
        for i in range(0, len(cps), 256):
            out.append({"k": "lex", "d": d, "cps": cps[i : i + 256]})
    return out


LAST_NODES = {}


def walk(dialect_label, add, res):
    from sqlfluff.core.dialects import dialect_selector
    from sqlfluff.core.parser import BaseSegment
    from sqlfluff.core.parser.context import ParseContext
    from sqlfluff.core.parser.grammar.base import Ref
    from sqlfluff.core.parser.matchable import Matchable

    try:
        dialect = dialect_selector(dialect_label)
    except Exception as e:
        add("dialect_load", {"type": type(e).__name__}, {"msg": str(e)[:200]})
        return 0, 0
    try:
        root = dialect.get_root_segment()
    except Exception as e:
        add("root_segment", {"type": type(e).__name__}, {"msg": str(e)[:200]})
        return 0, 0
    seen = {}
    frontier = [root]
    edges = 0
    dangling = set()

    def is_node(v):
        try:
            if isinstance(v, type):
                return v is not type and issubclass(v, BaseSegment)
            return isinstance(v, Matchable)
        except TypeError:
            return False

    def children_of(obj):
        out = []
        if isinstance(obj, type):
            mg = getattr(obj, "match_grammar", None)
            if mg is not None:
                out.append(mg)
            return out
        if isinstance(obj, Ref):
            try:
                out.append(dialect.ref(obj._ref))
            except Exception as e:
                dangling.add((obj._ref, type(e).__name__))
        try:
            attrs = vars(obj)
        except TypeError:
            attrs = {}
        stack = list(attrs.values())
        while stack:
            v = stack.pop()
            if is_node(v):
                out.append(v)
            elif isinstance(v, (list, tuple, set, frozenset)):
                stack.extend(v)
            elif isinstance(v, dict):
                stack.extend(v.values())
        # bracket sets used by Bracketed grammars
        bt = getattr(obj, "bracket_pairs_set", None)
        if isinstance(bt, str):
            try:
                for _type, start_ref, end_ref, _persists in dialect.bracket_sets(bt):
                    for r in (start_ref, end_ref):
                        try:
                            out.append(dialect.ref(r))
                        except Exception as e:
                            dangling.add((r, type(e).__name__))
            except Exception as e:
                dangling.add((bt, type(e).__name__))
        return out

    while frontier:
        nxt = []
        for node in frontier:
            if id(node) in seen:
                continue
            seen[id(node)] = node
            for c in children_of(node):
                edges += 1
                if id(c) not in seen:
                    nxt.append(c)
        frontier = nxt
    LAST_NODES[dialect_label] = (dialect, list(seen.values()))  # BFS order; reused by C06's hint check
    for ref, et in sorted(dangling):
        add("dangling_reference", {"pair": f"{dialect_label}:{ref}"}, {"error": et})
    # simple() must return on every node
    ctx = ParseContext(dialect=dialect, max_parse_depth=255)
    nsimple = 0
    for node in seen.values():
        if isinstance(node, type) and getattr(node, "match_grammar", None) is None:
            continue  # raw token classes held by parsers (raw_class) are never matched directly
        try:
            node.simple(parse_context=ctx, crumbs=None)
            nsimple += 1
        except RuntimeError as e:
            # dangling refs already reported above
            if "refers to" in str(e) or "Grammar refers" in str(e):
                continue
            res["stats"]["simple_raised_other"] = res["stats"].get("simple_raised_other", 0) + 1
        except RecursionError:
            # non-termination of the first-token hint would hang every parse that reaches the node
            add("simple_recursion", {}, {"node": repr(node)[:100]})
        except Exception:
            # e.g. Ref("CodeSegment") to a raw token class: resolves (which is what the statement asks)
            # but has no match_grammar to derive a hint from. Counted, not judged: an earlier version of
            # this check treated it as a failure, which asked for more than the property states.
            res["stats"]["simple_raised_other"] = res["stats"].get("simple_raised_other", 0) + 1
    res["stats"]["states"] = res["stats"].get("states", 0) + len(seen)
    res["stats"]["transitions"] = res["stats"].get("transitions", 0) + edges
    res["stats"]["simple_ok"] = res["stats"].get("simple_ok", 0) + nsimple
    return len(seen), edges


def run_case(case):
    res = {"n": 0, "fails": [], "cls": set(), "stats": {}, "nontrivial": 0}
    d = case["d"]

    def add(clause, features, detail):
        res["fails"].append({"clause": clause, "features": features, "detail": detail, "case": {"k": case["k"], "d": d, **({"cps": detail.pop("cps")} if "cps" in detail else {})}})

    if case["k"] == "graph":
        n, e = walk(d, add, res)
        res["n"] = max(n, 1)
        if n >= 500:
            res["nontrivial"] = n
        res["sample"] = {"dialect": d, "states": n, "transitions": e}
        res["cls"].add(digest((d, n, e)))
        return res
    from sqlfluff.core import FluffConfig, Lexer

    lx = Lexer(config=FluffConfig(overrides={"dialect": d}))
    for cp in case["cps"]:
        ch = chr(cp)
        for s in (ch, "a" + ch + "b"):
            res["n"] += 1
            try:
                toks, errs = lx.lex(s)
            except Exception as e:
                add("lexer_raises", {"type": type(e).__name__}, {"cps": [cp], "msg": str(e)[:200]})
                continue
            if "".join(t.raw for t in toks) != s:
                add("lexer_drops", {}, {"cps": [cp], "got": "".join(t.raw for t in toks)})
            nun = sum(1 for t in toks if t.is_type("unlexable"))
            if nun != len(errs):
                add("unlexable_without_error", {}, {"cps": [cp]})
            if nun or len([t for t in toks if not t.is_meta]) >= 2:
                res["nontrivial"] += 1
            res["cls"].add(digest(tuple(t.get_type() for t in toks)))
    res.setdefault("sample", {"dialect": d, "codepoint": case["cps"][0]})
    return res


def post(agg, tier):
    return {"states": agg["stats"].get("states", 0), "transitions": agg["stats"].get("transitions", 0)}
