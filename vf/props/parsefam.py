"""Shared input families for the parse-level properties (C02, C03, C06, C28)."""

from __future__ import annotations

from vf import corpus


def parse_cases(tier, blocks_per_dialect=True, fixtures=True, jinja=False):
    """Case list shared by parse-level checks.

    quick:    Sigma_t24^<=3 ansi, G(2)xD(1), Sigma_t18(+dialect tokens)^<=2 x dialects,
              G(1) x dialects, fixtures <= 400 B in their own dialect
    thorough: + Sigma_t24^<=4 ansi, G(1)xD(2), G(3), all fixtures <= 2000 B
    """
    out = []
    kt = 3 if tier == "quick" else 4
    for t in corpus.SIGMA_T24:
        out.append({"k": "tokblock", "d": "ansi", "p": t, "n": kt})
    gd = sorted(set(corpus.D(corpus.G(1), 1)) | set(corpus.G(2)), key=lambda s: (len(s), s)) if tier == "quick" else sorted(
        set(corpus.D(corpus.G(2), 1)) | set(corpus.D(corpus.G(1), 2)) | set(corpus.G(3)), key=lambda s: (len(s), s)
    )
    for i in range(0, len(gd), 64):
        out.append({"k": "strs", "d": "ansi", "ss": gd[i : i + 64]})
    if blocks_per_dialect:
        g1 = corpus.G(1) if tier == "quick" else corpus.D(corpus.G(1), 1)
        for d in corpus.dialects():
            if d == "ansi":
                continue
            for t in corpus.SIGMA_T18 + corpus.DIALECT_TOKENS.get(d, []):
                out.append({"k": "tokblock", "d": d, "p": t, "n": 2, "ext": True})
            for i in range(0, len(g1), 64):
                out.append({"k": "strs", "d": d, "ss": g1[i : i + 64]})
    if fixtures:
        fx = corpus.fixtures(400 if tier == "quick" else 2000)
        for i in range(0, len(fx), 8):
            out.append({"k": "fixtures", "ids": [f[1] for f in fx[i : i + 8]]})
    if jinja:
        ml = 30 if tier == "quick" else 44
        ts = [t for t in corpus.t_seqs(1, 2, corpus.T_LITS, max_len=ml) if corpus.has_markup(t)]
        # + tokens spanning 2-3 template slices / templated whitespace (no separating spaces)
        ts = sorted(set(ts) | set(corpus.span_templates(3)) | set(corpus.loop_templates()), key=lambda s: (len(s), s))
        for i in range(0, len(ts), 16):
            out.append({"k": "jinja", "ts": ts[i : i + 16]})
    return out


_FX = {}


def expand(case):
    """-> iterable of (one_case_dict, dialect, templater, ctx_index, text)."""
    k = case["k"]
    if k == "tokblock":
        al = corpus.SIGMA_T24 if not case.get("ext") else corpus.SIGMA_T18 + corpus.DIALECT_TOKENS.get(case["d"], [])
        p = case["p"]
        for s in corpus.token_seqs(al, case["n"] - 1):
            txt = p + ("" if (not s or p.endswith("\n")) else " ") + s
            yield {"k": "one", "d": case["d"], "s": txt}, case["d"], "raw", None, txt
    elif k == "strs":
        for s in case["ss"]:
            yield {"k": "one", "d": case["d"], "s": s}, case["d"], "raw", None, s
    elif k == "fixtures":
        if not _FX:
            for d, p, t in corpus.fixtures(10**9):
                _FX[p] = (d, t)
        for p in case["ids"]:
            d, t = _FX[p]
            yield {"k": "fixtures", "ids": [p]}, d, "raw", None, t
    elif k == "jinja":
        for t in case["ts"]:
            for ci in range(len(corpus.T_CTX)):
                yield {"k": "one", "d": "ansi", "s": t, "tpl": "jinja", "ctx": ci}, "ansi", "jinja", ci, t
    elif k == "one":
        yield case, case["d"], case.get("tpl", "raw"), case.get("ctx"), case["s"]
    else:
        raise ValueError(k)


def get_linter(dialect, templater, ctx_index, **ov):
    from vf import sq

    if templater == "jinja":
        return sq.linter(dialect, "jinja", configs=sq.jinja_ctx_configs(corpus.T_CTX[ctx_index]), **ov)
    return sq.linter(dialect, templater, **ov)
