"""C27 Configuration precedence and isolation (merge model + full replay; histories via engine E2)."""

from __future__ import annotations

import itertools
import os
import shutil

from vf import hist
from vf.core import case_id, digest, scratch_root

LEVEL = "model_checking"
RULE = (
    "precedence: sources {HOME/.sqlfluff, proj/.sqlfluff, proj/a/.sqlfluff, proj/a/pyproject.toml, proj/a/b/.sqlfluff, extra --config file, "
    "override (CLI), inline `-- sqlfluff:` directive}: every subset (256) sets the probe key to a source-unique value; probe keys: core "
    "max_line_length (all subsets), nested rules:aliasing.length:min_alias_length and list-valued exclude_rules (subsets of size <= 3); file "
    "located in proj, proj/a, proj/a/b; cwd = proj. The effective value is read from the file's FluffConfig AND observed through rule "
    "behaviour (LT05 / AL06 message, rule absence). Model: ordered dict merge default < user < cwd..file dir (nearer wins) < extra < override "
    "< inline. isolation: every sequence of <= 3 of 5 files (inline max_line_length, plain, nested-dir config, inline dialect, inline "
    "exclude_rules) linted in one lint_paths call and as consecutive lint_string calls, each in a child of a pristine zygote; a file's "
    "violations must equal its violations when linted alone. Every model case is replayed. Non-trivial = >= 2 sources set the key / "
    "history length >= 2."
)
ASSUMPTIONS = [
    "when .sqlfluff and pyproject.toml in the same directory both set the key and are the highest sources, either value is accepted (the statement does not order files within a directory)",
    "project lives under HOME so that the loader's parent-directory scan sees only harness-created files",
]
BOUND = {"quick": "256 subsets x 3 locations (max_line_length); 93 subsets x 3 locations x 2 other keys; 85 histories x 2 modes", "thorough": "256 subsets for every key"}
FLOOR = {"quick": 800, "thorough": 2000}
CHUNK = 1
TIMEOUT = 900  # per case; fresh child processes are slow when the machine is loaded

SOURCES = ["home", "proj", "a", "a_toml", "ab", "extra", "override", "inline"]
KEYS = ["mll", "mal", "excl"]
VALS = {
    "mll": {s: 31 + i for i, s in enumerate(SOURCES)},
    "mal": {s: 11 + i for i, s in enumerate(SOURCES)},
    "excl": {s: "AL0%d" % (i + 1) for i, s in enumerate(SOURCES)},
}
LOCS = {"proj": ".", "a": "a", "ab": "a/b"}
LONG = "SELECT aaaaaaaaaaaaaaaaaaaaaaaaaaaaaaaaaaaaaaaaaaaaaaaaaaaaaaaaaaaaaaa AS x FROM t AS u\n"


def ini(key, val):
    if key == "mll":
        return "[sqlfluff]\ndialect = ansi\nmax_line_length = %s\n" % val
    if key == "mal":
        return "[sqlfluff]\ndialect = ansi\n[sqlfluff:rules:aliasing.length]\nmin_alias_length = %s\n" % val
    return "[sqlfluff]\ndialect = ansi\nexclude_rules = %s\n" % val


def toml(key, val):
    if key == "mll":
        return '[tool.sqlfluff.core]\ndialect = "ansi"\nmax_line_length = %s\n' % val
    if key == "mal":
        return '[tool.sqlfluff.core]\ndialect = "ansi"\n[tool.sqlfluff.rules."aliasing.length"]\nmin_alias_length = %s\n' % val
    return '[tool.sqlfluff.core]\ndialect = "ansi"\nexclude_rules = "%s"\n' % val


def inline(key, val):
    if key == "mll":
        return "-- sqlfluff:max_line_length:%s\n" % val
    if key == "mal":
        return "-- sqlfluff:rules:aliasing.length:min_alias_length:%s\n" % val
    return "-- sqlfluff:exclude_rules:%s\n" % val


def cases(tier):
    out = []
    subsets = []
    for k in range(0, len(SOURCES) + 1):
        subsets += list(itertools.combinations(SOURCES, k))
    for key in KEYS:
        for sub in subsets:
            if key != "mll" and tier == "quick" and len(sub) > 3:
                continue
            for loc in LOCS:
                out.append({"k": "prec", "key": key, "sub": list(sub), "loc": loc})
    files = list(range(5))
    seqs = []
    for L in (1, 2, 3):
        seqs += list(itertools.permutations(files, L))
    for seq in seqs:
        for mode in ("paths", "strings"):
            out.append({"k": "iso", "seq": list(seq), "mode": mode})
    return out


def model_value(key, sub, loc):
    order = ["home", "proj"]
    if loc in ("a", "ab"):
        order += ["a", "a_toml"]
    if loc == "ab":
        order += ["ab"]
    order += ["extra", "override", "inline"]
    present = [s for s in order if s in sub]
    if not present:
        return None, set()
    top = present[-1]
    accept = {VALS[key][top]}
    if top in ("a", "a_toml") and "a" in sub and "a_toml" in sub:
        accept = {VALS[key]["a"], VALS[key]["a_toml"]}
    return VALS[key][top], accept


def _prec_child(case, base):
    """Runs in a pristine child. -> dict(config_value, behaviour)"""
    from sqlfluff.core import FluffConfig, Linter

    key, sub, loc = case["key"], case["sub"], case["loc"]
    home = os.path.join(base, "home")
    proj = os.path.join(home, "proj")
    os.makedirs(os.path.join(proj, "a", "b"))
    os.environ["HOME"] = home
    os.environ["XDG_CONFIG_HOME"] = os.path.join(home, ".config")
    V = VALS[key]
    if "home" in sub:
        open(os.path.join(home, ".sqlfluff"), "w").write(ini(key, V["home"]))
    open(os.path.join(proj, ".sqlfluff"), "w").write(ini(key, V["proj"]) if "proj" in sub else "[sqlfluff]\ndialect = ansi\n")
    if "a" in sub:
        open(os.path.join(proj, "a", ".sqlfluff"), "w").write(ini(key, V["a"]))
    if "a_toml" in sub:
        open(os.path.join(proj, "a", "pyproject.toml"), "w").write(toml(key, V["a_toml"]))
    if "ab" in sub:
        open(os.path.join(proj, "a", "b", ".sqlfluff"), "w").write(ini(key, V["ab"]))
    extra = None
    if "extra" in sub:
        extra = os.path.join(base, "extra.cfg")
        open(extra, "w").write(ini(key, V["extra"]))
    ov = {}
    if "override" in sub:
        if key == "mll":
            ov["max_line_length"] = V["override"]
        elif key == "excl":
            ov["exclude_rules"] = V["override"]
    body = LONG
    if "inline" in sub:
        body = inline(key, V["inline"]) + body
    rel = os.path.join(LOCS[loc], "f.sql")
    open(os.path.join(proj, rel), "w").write(body)
    os.chdir(proj)
    root = FluffConfig.from_root(extra_config_path=extra, overrides=ov or None)
    if key == "mal" and "override" in sub:
        root.set_value(["rules", "aliasing.length", "min_alias_length"], V["override"]) if hasattr(root, "set_value") else None
    lnt = Linter(config=root)
    _raw, fcfg, _enc = lnt.load_raw_file_and_config(rel, root)
    if key == "mll":
        cv = fcfg.get("max_line_length")
    elif key == "mal":
        cv = fcfg.get_section(["rules", "aliasing.length", "min_alias_length"])
    else:
        cv = fcfg.get("exclude_rules")
    res = lnt.lint_paths((rel,))
    descs = [(v["code"], v["description"]) for r in res.as_records() for v in r["violations"]]
    # the same file through the string entry point (stdin / API route), config resolved for that path
    lf = Linter(config=FluffConfig.from_path(rel, extra_config_path=extra, overrides=ov or None)).lint_string(body, fname=rel)
    sdescs = [(v.rule_code(), v.desc()) for v in lf.violations]
    return {"config_value": cv, "violations": descs, "violations_string": sdescs}


def behaviour_value(key, descs):
    import re

    if key == "mll":
        for c, d in descs:
            m = re.search(r"> (\d+)\)", d)
            if c == "LT05" and m:
                return int(m.group(1))
        return None
    if key == "mal":
        for c, d in descs:
            m = re.search(r"at least (\d+) character", d)
            if c == "AL06" and m:
                return int(m.group(1))
        return None
    return None


ISO_FILES = [
    ("i_mll.sql", "-- sqlfluff:max_line_length:20\nSELECT aaaaaaaaaaaa, bbbbbbbbbbbbb FROM t\n"),
    ("plain.sql", "SELECT aaaaaaaaaaaa, bbbbbbbbbbbbb  FROM t\n"),
    ("n/nested.sql", "select aaaaaaaaaaaa, bbbbbbbbbbbbb from t\n"),
    ("i_dialect.sql", "-- sqlfluff:dialect:tsql\nSELECT [a]  FROM t\n"),
    ("i_excl.sql", "-- sqlfluff:exclude_rules:LT01\nSELECT aaaaaaaaaaaa, bbbbbbbbbbbbb  FROM t\n"),
]


def _iso_child(seq, mode, base):
    from sqlfluff.core import FluffConfig, Linter

    home = os.path.join(base, "home")
    proj = os.path.join(home, "proj")
    os.makedirs(os.path.join(proj, "n"))
    os.environ["HOME"] = home
    open(os.path.join(proj, ".sqlfluff"), "w").write("[sqlfluff]\ndialect = ansi\nrules = LT01,LT05,CP01\n")
    open(os.path.join(proj, "n", ".sqlfluff"), "w").write("[sqlfluff]\nmax_line_length = 30\n[sqlfluff:rules:capitalisation.keywords]\ncapitalisation_policy = lower\n")
    for name, text in ISO_FILES:
        open(os.path.join(proj, name), "w").write(text)
    os.chdir(proj)
    lnt = Linter(config=FluffConfig.from_root())
    out = {}
    if mode == "paths":
        res = lnt.lint_paths(tuple(ISO_FILES[i][0] for i in seq))
        for r in res.as_records():
            out[os.path.normpath(r["filepath"])] = sorted((v["code"], v["start_line_no"], v["start_line_pos"], v["description"]) for v in r["violations"])
    else:
        for i in seq:
            name, text = ISO_FILES[i]
            lf = lnt.lint_string(text, fname=name, config=FluffConfig.from_path(name)) if False else lnt.lint_string(text, fname=name)
            out[os.path.normpath(name)] = sorted((v.rule_code(), v.line_no, v.line_pos, v.desc()) for v in lf.violations)
    return out


def setup():
    hist.start_zygote()


_ALONE = {}


def run_case(case):
    res = {"n": 1, "fails": [], "cls": set(), "stats": {}, "nontrivial": 0}
    base = os.path.join(scratch_root(), "c27", case_id(case) + "-" + str(os.getpid()))
    shutil.rmtree(base, ignore_errors=True)
    os.makedirs(base)
    try:
        if case["k"] == "prec":
            if case["key"] == "mal" and "override" in case["sub"]:
                # no CLI override exists for nested rule options; keep the case but without that source
                case = dict(case, sub=[s for s in case["sub"] if s != "override"])
            # Executed in the worker itself (every case has its own HOME and project directory, so
            # sqlfluff's per-path config caches cannot alias cases); fresh children are too slow in
            # this VM to spend one per case. A failure is re-run in a pristine child (see below).
            old_cwd, old_home, old_xdg = os.getcwd(), os.environ.get("HOME"), os.environ.get("XDG_CONFIG_HOME")
            try:
                obs = _prec_child(case, os.path.join(base, "w"))
            finally:
                os.chdir(old_cwd)
                os.environ["HOME"] = old_home
                os.environ["XDG_CONFIG_HOME"] = old_xdg
            want, accept = model_value(case["key"], case["sub"], case["loc"])
            cv = obs["config_value"]
            if case["key"] == "excl" and isinstance(cv, list):
                cv = ",".join(cv)
            feats = {"key": case["key"], "top_source": ([s for s in SOURCES if s in case["sub"]] or ["default"])[-1], "inline_present": "inline" in case["sub"]}
            if want is not None:
                cvn = int(cv) if (cv is not None and str(cv).isdigit()) else cv
                if cvn not in accept:
                    res["fails"].append({"clause": "effective_config_value", "features": feats, "detail": {"got": cv, "want": sorted(map(str, accept)), "sub": case["sub"], "loc": case["loc"]}})
                bv = behaviour_value(case["key"], obs["violations"])
                if case["key"] in ("mll", "mal") and bv is not None and bv not in accept:
                    res["fails"].append({"clause": "behaviour_value", "features": feats, "detail": {"got": bv, "want": sorted(accept), "sub": case["sub"], "loc": case["loc"], "config_value": cv}})
                sv = behaviour_value(case["key"], obs["violations_string"])
                if case["key"] in ("mll", "mal") and sv is not None and sv not in accept:
                    res["fails"].append({"clause": "behaviour_value_string_entry", "features": feats, "detail": {"got": sv, "want": sorted(accept), "sub": case["sub"], "loc": case["loc"]}})
                if case["key"] in ("mll", "mal") and bv is None:
                    res["fails"].append({"clause": "probe_rule_silent", "features": feats, "detail": {"violations": obs["violations"][:5]}})
                if case["key"] == "excl":
                    codes = {c for c, _ in obs["violations"]}
                    if any(a in codes for a in accept):
                        res["fails"].append({"clause": "excluded_rule_reported", "features": feats, "detail": {"excluded": sorted(accept), "reported": sorted(codes)}})
            if res["fails"]:
                fresh = hist.in_child("vf.props.c27", "_prec_child", case, os.path.join(base, "fresh"))
                if fresh != obs:
                    res["fails"].append({"clause": "config_depends_on_process_history", "features": feats, "detail": {"worker": obs, "fresh": fresh}})
            if len(case["sub"]) >= 2:
                res["nontrivial"] = 1
            res["cls"].add(digest((case["key"], want)))
        else:
            seq, mode = case["seq"], case["mode"]
            got = hist.in_child("vf.props.c27", "_iso_child", seq, mode, base + "/h")
            for i in seq:
                if (i, mode) not in _ALONE:
                    _ALONE[(i, mode)] = hist.in_child("vf.props.c27", "_iso_child", [i], mode, base + "/alone%d" % i)
                alone = _ALONE[(i, mode)]
                name = os.path.normpath(ISO_FILES[i][0])
                if got.get(name) != alone.get(name):
                    res["fails"].append(
                        {
                            "clause": "result_depends_on_other_files",
                            "features": {"mode": mode, "file": name},
                            "detail": {"sequence": [ISO_FILES[j][0] for j in seq], "in_sequence": got.get(name), "alone": alone.get(name)},
                        }
                    )
            if len(seq) >= 2:
                res["nontrivial"] = 1
            res["cls"].add(digest((tuple(seq), mode, tuple(sorted((k, tuple(v)) for k, v in got.items())))))
    finally:
        shutil.rmtree(base, ignore_errors=True)
    return res


def post(agg, tier):
    return {"states": len(agg["classes"]), "transitions": agg["n"], "traces_validated_against_impl": agg["n"]}
