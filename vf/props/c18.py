"""C18 Files with template or parse errors are never modified by fix (model + full replay)."""

from __future__ import annotations

from vf.core import digest
from vf.props import clifam

LEVEL = "model_checking"
RULE = (
    "scenario = error ingredient {none, unparsable section, unbalanced bracket (fatal PRS), undefined Jinja variable (TMP), Jinja syntax "
    "error (fatal TMP), and the first three inside the TAKEN branch of an if/else whose other branch is clean (a second, error-free variant)} x fixable ingredient {none, LT01, CP01, both} x suppression {none, noqa: PRS,TMP, bare noqa, --ignore flag, "
    "ignore= in config, warnings=PRS,TMP} x fix_even_unparsable {F,T} (+ warnings and runaway_limit {1,2} axes), every combination, each "
    "pushed through CLI fix/format on a path, CLI fix/format on stdin, sqlfluff.fix, and Linter.lint_paths(fix, apply_fixes). Model: "
    "unless fix_even_unparsable, a file whose unsuppressed baseline lint has any TMP/PRS error keeps its exact text; with runaway_limit=1 "
    "and a fixable violation -- and whenever the linter's own 'Loop limit on fixes reached' warning is witnessed (also for a two-variant Jinja file whose variants need different numbers of passes) -- the file is unchanged and the fix exit status is 1. Every model case is replayed against every entry point. "
    "Non-trivial = the scenario has both an error ingredient and a fixable ingredient (something could wrongly be fixed)."
)
ASSUMPTIONS = ["'has a templating or parsing error' is measured by an unsuppressed baseline lint of the same text (disable_noqa, no ignore, no warnings)"]
BOUND = {"quick": "all 8x4x6x2 combinations (error-free ones only unsuppressed) + warnings/loop-limit axes, 7 entry points each", "thorough": "same"}
FLOOR = {"quick": 60, "thorough": 60}
CHUNK = 1


def cases(tier):
    return [{"k": "s", "s": s} for s in clifam.scenarios(tier)]


def run_case(case):
    s = case["s"]
    res = {"n": 0, "fails": [], "cls": set(), "stats": {}, "nontrivial": 0}
    obs = clifam.observe(s, want=("fix", "format", "api", "lint_paths"))
    base = clifam.baseline(s)
    text = obs["text"]
    # by construction every error ingredient is an error of the rendering actually taken; the baseline lint is a
    # second witness (it alone would be blind to a change that also hides the error from lint)
    has_err = s["err"] != "none" or any(c in ("TMP", "PRS") for c, _, _ in base)
    if s["err"] != "none" and not any(c in ("TMP", "PRS") for c, _, _ in base):
        res["fails"].append({"clause": "error_ingredient_not_reported_by_lint", "features": {"err": s["err"]}, "detail": {"baseline": [list(b) for b in base][:6]}})
    fixable = any(f for c, _, f in base if c not in ("TMP", "PRS"))
    outs = {
        "fix_path": obs["fix_path"].get("text"),
        "fix_stdin": obs["fix_stdin"].get("text"),
        "format_path": obs["format_path"].get("text"),
        "format_stdin": obs["format_stdin"].get("text"),
        "fix_simple_api": obs["fix_simple_api"].get("text"),
        "fix_lint_paths": obs["fix_lint_paths"].get("text"),
    }
    for ep, out in outs.items():
        res["n"] += 1
        exc = obs[ep].get("exc")
        if exc and "SystemExit" not in str(exc):
            res["fails"].append({"clause": "entry_point_crashed", "features": {"entry": ep}, "detail": {"exc": str(exc)[-300:]}})
            continue
        if out is None:
            continue
        if has_err and not s.get("feu") and out != text:
            res["fails"].append(
                {
                    "clause": "modified_despite_error",
                    "features": {"entry": ep, "err": s["err"], "supp": s["supp"]},
                    "detail": {"input": text, "output": out[:300]},
                }
            )
        if ((s.get("rl") == 1 and fixable) or obs[ep].get("loop_limit")) and out != text:
            res["fails"].append(
                {
                    "clause": "modified_after_loop_limit",
                    "features": {"entry": ep, "templated_variants": s["fix"] == "var2", "limit_witnessed": bool(obs[ep].get("loop_limit"))},
                    "detail": {"input": text, "output": out[:300]},
                }
            )
        if obs[ep].get("loop_limit"):
            res["stats"]["loop_limit_witnessed"] = res["stats"].get("loop_limit_witnessed", 0) + 1
        if ep.endswith("_stdin") and obs[ep].get("file_after") is not None and obs[ep]["file_after"] != text:
            res["fails"].append({"clause": "stdin_mode_wrote_file", "features": {"entry": ep}, "detail": {}})
    for ep in ("fix_path", "fix_stdin"):
        if (s.get("rl") == 1 and fixable) or obs[ep].get("loop_limit"):
            if obs[ep]["rc"] != 1:
                res["fails"].append({"clause": "loop_limit_not_reported_unfixable", "features": {"entry": ep}, "detail": {"rc": obs[ep]["rc"]}})
    # sanity for vacuity: with no error ingredient and a fixable one, fix must actually change the file
    if not has_err and fixable and not s.get("rl") == 1 and not s.get("warn"):
        if outs["fix_path"] == text:
            res["stats"]["fixable_not_fixed"] = res["stats"].get("fixable_not_fixed", 0) + 1
        else:
            res["stats"]["clean_fixable_fixed"] = res["stats"].get("clean_fixable_fixed", 0) + 1
    if has_err and fixable:
        res["nontrivial"] = 1
    res["cls"].add(digest(tuple(sorted((k, v) for k, v in outs.items() if v is not None))))
    clifam.cleanup_case(s)
    return res


def post(agg, tier):
    return {"states": len(agg["classes"]), "transitions": agg["n"], "traces_validated_against_impl": agg["n"]}
