"""C11 Fixing preserves all untouched text byte-for-byte."""

from __future__ import annotations

import itertools
import os
import shutil

from vf import sq
from vf.core import case_id, digest, scratch_root
from vf.props import fixfam

LEVEL = "exploration"
RULE = (
    "string level: G(k)xD(1;WKME)+operator list and every rule-YAML string (own config) fixed under {layout, all}; Jinja skeletons T (len <= "
    "bound) x 6 contexts under all rules: the text outside the source ranges of the applied patches must reappear unchanged and in order "
    "(prefix, suffix and every in-between literal). byte level (real files through Linter.lint_paths(fix, apply_fixes)): body {fixable, clean} x "
    "encoding {utf-8, utf-8-sig, utf-16 (BOM), latin-1 by config, ascii} x line ending {LF, CRLF, mixed} x one undecodable byte (0xFF, 0xE9, "
    "lone 0x80) placed in {a comment, a string literal, nowhere} x encoding config {autodetect, utf-8}: every line no patch touches is "
    "byte-identical (after CRLF->LF), and a file with no applicable fix is not opened for writing (spy on _safe_create_replace_file + inode/"
    "mtime). Non-trivial = a fix changed the text (string level) / the file had a fixable violation (byte level)."
)
ASSUMPTIONS = ["applied patches are read from LintedFile.source_patches (generate_source_patches when absent)"]
BOUND = {"quick": "G(1)xD(1;WKME)+glue x {layout, all}; YAML x all; T len<=36; 2x5x3x(1+3x2)x2 byte-level files", "thorough": "G(2)xD(1;WKME); T len<=48"}
FLOOR = {"quick": 3000, "thorough": 20000}
CHUNK = 1

BODIES = {"fixable": ["SELECT a  FROM t", "WHERE b = 'x' -- c"], "clean": ["SELECT a FROM t", "WHERE b = 'x' -- c"]}
ENCODINGS = ["utf-8", "utf-8-sig", "utf-16", "latin-1", "ascii"]
EOLS = {"lf": ["\n", "\n"], "crlf": ["\r\n", "\r\n"], "mixed": ["\r\n", "\n"]}
BAD = [None] + [(b, where) for b in (b"\xff", b"\xe9", b"\x80") for where in ("comment", "string")]


def cases(tier):
    out = fixfam.fix_cases(tier, rulesets_raw=("layout", "all"), rulesets_yaml=("all",))
    from vf import corpus

    ml = 36 if tier == "quick" else 48
    ts = [t for t in corpus.t_seqs(1, 2, corpus.T_LITS, max_len=ml) if corpus.has_markup(t)]
    # + tokens spanning 2-3 template slices / templated whitespace (no separating spaces)
    ts = sorted(set(ts) | set(corpus.span_templates(3)), key=lambda s: (len(s), s))
    for i in range(0, len(ts), 8):
        out.append({"k": "jinja", "ts": ts[i : i + 8]})
    # characters that look like line breaks to some libraries but are ordinary data for SQL (and lone CR /
    # CRLF, which are line endings): inside a string literal and a comment of a file that gets a fix
    specials = ["\x0b", "\x0c", "\x1c", "\x1d", "\x1e", "\x85", " ", " ", "\r", "\r\n", " ", "﻿"]
    sp = []
    for ch in specials:
        sp.append("SELECT a  FROM t WHERE b = 'x" + ch + "y'\n")
        sp.append("SELECT a  FROM t -- c" + ch + "d\nWHERE b = 1\n")
        sp.append("SELECT a  FROM t" + ch + "WHERE b = 1\n")
    out.append({"k": "strs", "d": "ansi", "rs": "all", "ss": sp})
    out.append({"k": "strs", "d": "ansi", "rs": "layout", "ss": sp})
    for body, enc, eol, bad, cfgenc in itertools.product(BODIES, ENCODINGS, EOLS, range(len(BAD)), ("autodetect", "utf-8")):
        if BAD[bad] is not None and enc in ("utf-16",):
            continue
        if enc == "latin-1" and cfgenc == "utf-8":
            continue
        out.append({"k": "bytes", "body": body, "enc": enc, "eol": eol, "bad": bad, "cfgenc": cfgenc})
    return out


def patches_of(lf):
    from sqlfluff.core.linter.patch import generate_source_patches

    ps = lf.source_patches
    if ps is None:
        ps = generate_source_patches(lf.tree, lf.templated_file)
    return sorted(((p.source_slice.start, p.source_slice.stop) for p in ps))


def untouched_ok(src, fixed, ranges):
    """Everything outside `ranges` must reappear in order. -> None or description."""
    merged = []
    for a, b in ranges:
        if a > b:
            return "inverted patch range"
        if merged and a <= merged[-1][1]:
            merged[-1][1] = max(merged[-1][1], b)
        else:
            merged.append([a, b])
    lits = []
    pos = 0
    for a, b in merged:
        lits.append(src[pos:a])
        pos = b
    lits.append(src[pos:])
    if len(lits) == 1:
        return None if fixed == src else "changed without any patch"
    if not fixed.startswith(lits[0]):
        return "prefix before first patch changed"
    if not fixed.endswith(lits[-1]) or len(lits[0]) + len(lits[-1]) > len(fixed):
        return "suffix after last patch changed"
    p = len(lits[0])
    end = len(fixed) - len(lits[-1])
    for lit in lits[1:-1]:
        j = fixed.find(lit, p, end) if lit else p
        if j < 0 or j + len(lit) > end:
            return "text between patches changed: %r" % lit[:30]
        p = j + len(lit)
    return None


def string_level(one, lnt, text, res):
    res["n"] += 1
    try:
        lf, fixed = fixfam.run_fix(lnt, text)
    except Exception:
        fixfam.bump(res, "fix_exception")
        return
    if fixed is None:
        return
    import re as _re

    # the reference is the INPUT with only CRLF / CR turned into LF -- not whatever source string the
    # linter kept (a normalisation that eats more than line endings must not become the yardstick)
    src = _re.sub(r"\r\n|\r", "\n", text)
    if lf.templated_file.source_str != src:
        res["fails"].append(
            {
                "clause": "source_differs_from_input",
                "features": {},
                "detail": {"input": text[:120], "source_str": lf.templated_file.source_str[:120]},
                "case": one,
            }
        )
        return
    ranges = patches_of(lf)
    why = untouched_ok(src, fixed, ranges)
    if why:
        feats = {"why": why.split(":")[0]}
        if any(a > b for a, b in ranges):
            feats["patch_inverted"] = True
        res["fails"].append({"clause": "untouched_text_changed", "features": feats, "detail": {"fixed": fixed[:200], "patches": ranges[:8], "why": why}, "case": one})
    if fixed != src:
        res["nontrivial"] += 1
        res.setdefault("sample", one)
        res["cls"].add(digest((text, fixed)))


def byte_level(case, res):
    from sqlfluff.core import FluffConfig, Linter
    from sqlfluff.core.linter import linted_file as lfmod

    res["n"] += 1
    lines = list(BODIES[case["body"]])
    bad = BAD[case["bad"]]
    eols = EOLS[case["eol"]]
    enc = case["enc"]
    parts = []
    for i, ln in enumerate(lines):
        b = ln.encode(enc if enc != "utf-8-sig" and enc != "utf-16" else "utf-8") if enc not in ("utf-16",) else ln.encode("utf-16-le")
        e = eols[i].encode("utf-16-le") if enc == "utf-16" else eols[i].encode("ascii")
        if bad and i == 1:
            byte, where = bad
            if where == "comment":
                b = b + b" " + byte
            else:
                b = b.replace(b"'x'", b"'x" + byte + b"'")
        parts.append(b + e)
    raw = b"".join(parts)
    if enc == "utf-8-sig":
        raw = b"\xef\xbb\xbf" + raw
    if enc == "utf-16":
        raw = b"\xff\xfe" + raw
    d = os.path.join(scratch_root(), "c11", case_id(case) + "-" + str(os.getpid()))
    shutil.rmtree(d, ignore_errors=True)
    os.makedirs(d)
    p = os.path.join(d, "f.sql")
    with open(p, "wb") as f:
        f.write(raw)
    st0 = os.stat(p)
    cfgenc = case["cfgenc"] if enc != "latin-1" else "latin-1"
    spy = []
    orig = lfmod.LintedFile._safe_create_replace_file

    def wrapped(input_path, output_path, write_buff, encoding):
        spy.append(output_path)
        return orig(input_path, output_path, write_buff, encoding)

    lfmod.LintedFile._safe_create_replace_file = staticmethod(wrapped)
    old = os.getcwd()
    os.chdir(d)
    try:
        lnt = Linter(config=FluffConfig(overrides={"dialect": "ansi", "rules": "LT01", "encoding": cfgenc}))
        try:
            result = lnt.lint_paths(("f.sql",), fix=True, apply_fixes=True)
            exc = None
        except Exception as e:
            exc = type(e).__name__ + ": " + str(e)[:100]
    finally:
        os.chdir(old)
        lfmod.LintedFile._safe_create_replace_file = staticmethod(orig)
    after = open(p, "rb").read()
    st1 = os.stat(p)
    shutil.rmtree(d, ignore_errors=True)
    feats = {"enc": enc, "cfgenc": cfgenc, "bad_byte": bad is not None, "body": case["body"]}

    def add(clause, detail):
        res["fails"].append({"clause": clause, "features": dict(feats), "detail": detail})

    if exc:
        res["stats"]["lint_paths_exception"] = res["stats"].get("lint_paths_exception", 0) + 1
        if after != raw:
            add("file_changed_although_run_raised", {"exc": exc})
        return
    nl = b"\n\x00" if enc == "utf-16" else b"\n"
    cr = b"\r\x00" if enc == "utf-16" else b"\r"

    def norm_lines(bs):
        out = []
        for l in bs.split(nl):
            out.append(l[: -len(cr)] if l.endswith(cr) else l)
        return out

    a, b = norm_lines(raw), norm_lines(after)
    if case["body"] == "clean":
        if spy or after != raw or (st0.st_ino, st0.st_mtime_ns) != (st1.st_ino, st1.st_mtime_ns):
            add("clean_file_rewritten", {"spy": len(spy), "changed": after != raw})
    else:
        res["nontrivial"] += 1
        if len(a) != len(b):
            add("line_structure_changed", {"before": len(a), "after": len(b)})
        else:
            # line 0 carries the fix; every other line must be byte-identical
            for i in range(1, len(a)):
                if a[i] != b[i]:
                    add("untouched_line_bytes_changed", {"line": i + 1, "before": repr(a[i])[:80], "after": repr(b[i])[:80]})
            if after == raw:
                res["stats"]["fixable_not_fixed"] = res["stats"].get("fixable_not_fixed", 0) + 1
    res["cls"].add(digest((enc, cfgenc, case["eol"], case["bad"], after == raw)))
    res.setdefault("sample", case)


def run_case(case):
    res = {"n": 0, "fails": [], "cls": set(), "stats": {}, "nontrivial": 0}
    k = case["k"]
    if k == "bytes":
        byte_level(case, res)
    elif k == "jinja":
        from vf import corpus
        from vf.props import parsefam

        for t in case["ts"]:
            for ci in range(len(corpus.T_CTX)):
                if case.get("ctx", ci) != ci:
                    continue
                string_level({"k": "jinja", "ts": [t], "ctx": ci}, parsefam.get_linter("ansi", "jinja", ci, rules="all"), t, res)
    else:
        for one, lnt, text in fixfam.expand(case):
            string_level(one, lnt, text, res)
    return res
