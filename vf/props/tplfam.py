"""Template families shared by C07, C08, C09, C10."""

from __future__ import annotations

import itertools

from vf import corpus, sq

UNDEF_EXTRA = ["{% if u %}a{% endif %}", "{% for x in u %}a{% endfor %}", "{{ u|default('d') }}", "{{ u.attr }}", "{{ u ~ 'x' }}"]
NEAR_MARKERS = ["{", "{ {", "#}", "%}", "{#", "{%", "{{", "}}", "{ %", "{# c", "{{ v", "{% if c", "{##}", "{{}}", "{%%}"]


def jinja_templates(tier):
    if tier == "quick":
        base = [t for t in corpus.t_seqs(1, 2, corpus.T_LITS, max_len=52) if corpus.has_markup(t)]
        rich = [t for t in corpus.t_seqs(1, 2, corpus.T_LITS4, rich=True, max_len=56) if corpus.has_markup(t)]
        ws_src = [t for t in base if len(t) <= 36]
        kws = 1
    else:
        base = [t for t in corpus.t_seqs(1, 2, corpus.T_LITS) if corpus.has_markup(t)]
        rich = [t for t in corpus.t_seqs(1, 2, corpus.T_LITS4, rich=True, max_len=80) if corpus.has_markup(t)]
        ws_src = [t for t in base if len(t) <= 44]
        kws = 2
    s = set(base) | set(rich)
    # tokens spanning several template slices / templated whitespace, and nested (depth 2) control flow
    s |= set(corpus.span_templates(4))
    s |= set(corpus.nested_templates(full=(tier != "quick")))
    for t in ws_src:
        s |= corpus.ws_control_variants(t, kws)
    for t in UNDEF_EXTRA:
        s.add(t)
        s.add("SELECT " + t)
    return sorted(s, key=lambda x: (len(x), x))


def marker_free(tier):
    """Files for the Jinja fast path: no markers, or near-markers."""
    n = 2 if tier == "quick" else 3
    out = set(corpus.sigma_c(n, [c for c in corpus.SIGMA_C if c not in "{}%#"] ))
    out |= set(NEAR_MARKERS)
    out |= {"SELECT " + m for m in NEAR_MARKERS} | {m + "\n" for m in NEAR_MARKERS}
    out |= set(corpus.G(1))
    return sorted(out, key=lambda x: (len(x), x))


def jinja_linter(ci, **ov):
    return sq.linter("ansi", "jinja", configs=sq.jinja_ctx_configs(corpus.T_CTX[ci]), **ov)


# ---- python templater
PY_PIECES = ["SELECT ", "{a}", "{a.b}", "{c.d.e}", "{{", "}}", "{{x}}", "'{{1.5}}'", "{a!r}", "{a:>4}", "{a.b:>4}", " FROM t", "\n"]
PY_CTXS = [
    {"a": "x", "a.b": "y", "c.d.e": "2"},
    {"a": 1, "a.b": "y", "c.d.e": 2},
    {"a": "x"},  # dotted keys missing -> must be a TMP error, never a wrong render
]


def py_strings(tier):
    n = 3 if tier == "quick" else 4
    out = set()
    for k in range(1, n + 1):
        for tup in itertools.product(PY_PIECES, repeat=k):
            out.add("".join(tup))
    return sorted(out, key=lambda x: (len(x), x))


def py_linter(ci):
    return sq.linter("ansi", "python", configs={"templater": {"python": {"context": dict(PY_CTXS[ci])}}})


# ---- placeholder templater
def ph_styles():
    from sqlfluff.core.templaters.placeholder import KNOWN_STYLES

    return sorted(KNOWN_STYLES)


PH_PARAM = {
    "colon": [":p", ":1", ":p_2"],
    "colon_nospaces": [":p", ":1", ":p_2"],
    "colon_optional_quotes": [":p", ":'p'", ':"p"'],
    "numeric_colon": [":1", ":2", ":12"],
    "pyformat": ["%(p)s", "%(p_2)s", "%(1)s"],
    "dollar": ["$p", "${p}", "$p_2"],
    "flyway_var": ["${p}", "${p_2}", "${1}"],
    "dollar_surround": ["$p$", "$p_2$", "$1$"],
    "question_mark": ["?", "? ", "?"],
    "numeric_dollar": ["$1", "$2", "$12"],
    "percent": ["%s", "%s ", "%s"],
    "ampersand": ["&p", "&{p}", "&p_2"],
    "apache_camel": [":#${p}", ":#${p_2}", ":#${1}"],
    "at": ["@p", "@p_2", "@1"],
}
PH_LOOKALIKE = ["::p", "\\:p", "a:p", "'x'", "$$", "%%"]


def ph_strings(style, tier):
    params = sorted(set(PH_PARAM.get(style, [":p"])))
    pieces = ["SELECT ", " WHERE a = ", "\n", ", "] + params + PH_LOOKALIKE
    n = 3 if tier == "quick" else 4
    out = set()
    for k in range(1, n + 1):
        for tup in itertools.product(pieces, repeat=k):
            out.add("".join(tup))
    return sorted(out, key=lambda x: (len(x), x))


PH_VALUES = [{}, {"p": "zz", "1": "11", "p_2": "yy", "2": "22", "12": "1212"}]


def ph_linter(style, vi):
    cfg = {"param_style": style}
    cfg.update(PH_VALUES[vi])
    return sq.linter("ansi", "placeholder", configs={"templater": {"placeholder": cfg}})


def if_inside_for(tf) -> bool:
    """Structural feature of a TemplatedFile: an if/elif tag occurs inside the body of a for loop."""
    import re

    stack = []
    for rs in tf.raw_sliced:
        if rs.slice_type not in ("block_start", "block_mid", "block_end"):
            continue
        m = re.match(r"\{%[-+]?\s*(\w+)", rs.raw)
        word = m.group(1) if m else ""
        if word == "for":
            stack.append("for")
        elif word == "if":
            if "for" in stack:
                return True
            stack.append("if")
        elif word == "elif":
            if "for" in stack[:-1] or (stack and stack[-1] == "for"):
                return True
        elif word in ("endfor", "endif") and stack:
            stack.pop()
    return False


def token_spans_slices(tf, toks) -> bool:
    """Structural feature: some non-whitespace token strictly contains the position of a zero-width
    template slice (tag/comment) or overlaps two or more template slices."""
    for x in toks:
        if x.is_meta or x.pos_marker is None:
            continue
        ts_ = x.pos_marker.templated_slice
        touched = 0
        for s in tf.sliced_file:
            a, b = s.templated_slice.start, s.templated_slice.stop
            if a == b:
                if ts_.start < a < ts_.stop:
                    return True
            elif a < ts_.stop and ts_.start < b:
                touched += 1
        if touched >= 2:
            return True
    return False


def check_slices(tf, add, variant):
    """C07 clauses on one TemplatedFile."""
    src = tf.source_str
    pos = 0
    for rs in tf.raw_sliced:
        if rs.source_idx != pos:
            add("raw_tile", {}, {"variant": variant, "at": rs.source_idx, "expected": pos})
            break
        if src[pos : pos + len(rs.raw)] != rs.raw:
            add("raw_text", {}, {"variant": variant, "at": pos})
            break
        pos += len(rs.raw)
    else:
        if pos != len(src):
            add("raw_tile_end", {}, {"variant": variant, "end": pos, "len": len(src)})
    tp = 0
    for s in tf.sliced_file:
        if s.templated_slice.start != tp:
            add("templated_tile", {}, {"variant": variant, "at": s.templated_slice.start, "expected": tp})
            break
        if s.templated_slice.stop < s.templated_slice.start:
            add("templated_negative", {}, {"variant": variant})
            break
        tp = s.templated_slice.stop
        if not (0 <= s.source_slice.start <= s.source_slice.stop <= len(src)):
            add("source_bounds", {}, {"variant": variant, "slice": [s.source_slice.start, s.source_slice.stop], "len": len(src)})
        if s.slice_type == "literal" and s.templated_slice.stop > s.templated_slice.start:
            if tf.templated_str[s.templated_slice] != src[s.source_slice]:
                add(
                    "literal_text",
                    {},
                    {"variant": variant, "templated": tf.templated_str[s.templated_slice][:40], "source": src[s.source_slice][:40]},
                )
    else:
        if tp != len(tf.templated_str):
            add("templated_tile_end", {}, {"variant": variant, "end": tp, "len": len(tf.templated_str)})
