"""C10 Fixes never edit template code."""

from __future__ import annotations

import itertools
import re

from vf import corpus, sq
from vf.core import digest
from vf.props import fixfam, tplfam

LEVEL = "exploration"
RULE = (
    "every Jinja skeleton of family T (depth 1, <= 2 items) up to the length bound whose literals carry fixable violations (double "
    "spaces, lower-case keywords, leading commas, missing final newline, trailing whitespace; literals may abut tags) x 6 contexts x "
    "rule sets {all, all minus JJ01, layout}; python-format and placeholder SQL pieces^<=3 with fixable literals. All rendering "
    "variants take part (the cross-variant merge path). Oracle: the ordered list of non-literal raw slices (tags, expressions, "
    "comments, placeholder parameters) of the fixed source equals that of the original, text-exact (modulo whitespace just inside "
    "delimiters when JJ01 is enabled). Non-trivial = the fix changed the source and the file has >= 1 non-literal slice."
)
ASSUMPTIONS = ["non-literal slices are taken from the templater's own raw slicing of the original and of the fixed source"]
BOUND = {"quick": "T len<=44 x 6 ctx x {all, layout}; T len<=36 x all-JJ01; py/ph pieces^<=3", "thorough": "T len<=52 x 6 ctx x 3 rule sets; ws-control<=1"}
FLOOR = {"quick": 2000, "thorough": 20000}
CHUNK = 1

PY_PIECES = ["SELECT  ", "{a}", " ,{a.b}", "  from t", "\n", "{a}  "]
PH_PIECES = ["SELECT  ", ":p", " ,:p_2", "  from t where a =  ", "\n", "':p'"]


def cases(tier):
    out = []
    ml = 44 if tier == "quick" else 52
    ts = [t for t in corpus.t_seqs(1, 2, corpus.T_LITS, max_len=ml) if corpus.has_markup(t)]
    # + tokens spanning 2-3 template slices / templated whitespace (no separating spaces)
    ts = sorted(set(ts) | set(corpus.span_templates(3)), key=lambda s: (len(s), s))
    if tier == "thorough":
        s = set(ts)
        for t in ts:
            if len(t) <= 36:
                s |= corpus.ws_control_variants(t, 1)
        ts = sorted(s, key=lambda x: (len(x), x))
    for rs in ("all", "layout", "nojj"):
        sub = ts if (rs != "nojj" or tier == "thorough") else [t for t in ts if len(t) <= 36]
        for i in range(0, len(sub), 8):
            out.append({"k": "jinja", "rs": rs, "ts": sub[i : i + 8]})
    # a template expression / bind parameter in every kind of place (comment, block comment, string, code, end of an
    # over-long line) x every templater and placeholder style x {default, max_line_length = 30}
    for tpl in PARAM:
        for mll in (0, 30):
            out.append({"k": "param", "tpl": tpl, "rs": "all", "mll": mll, "ss": [sh.replace("@P@", PARAM[tpl][0]) for sh in PARAM_SHAPES]})
    # expressions whose RENDERED text carries the fixable violation, in the taken branch, in an unreached branch
    # (linted only as an alternate variant) and in a loop body
    out.append({"k": "exprout", "rs": "all", "ss": exprout_templates()})
    out.append({"k": "exprout", "rs": "layout", "ss": exprout_templates()})
    for kind, pieces in (("python", PY_PIECES), ("placeholder", PH_PIECES)):
        ss = sorted({"".join(tup) for k in range(1, 4) for tup in itertools.product(pieces, repeat=k)}, key=lambda x: (len(x), x))
        for i in range(0, len(ss), 32):
            out.append({"k": kind, "rs": "all", "ss": ss[i : i + 32]})
    return out


EXPR_VALUES = ["c  as  d", "c  ,d", "c as  d", "c+d"]


def exprout_templates():
    out = []
    for i in range(len(EXPR_VALUES)):
        w = "{{ w%d }}" % i
        out += [
            "SELECT " + w + " FROM t\n",
            "SELECT {% if c %}a{% else %}" + w + "{% endif %} FROM t\n",
            "SELECT {% if c %}" + w + "{% else %}a{% endif %} FROM t\n",
            "SELECT {% if not c %}a{% elif d %}b{% else %}" + w + "{% endif %} FROM t\n",
            "SELECT 1{% for x in xs %}, " + w + "{% endfor %} FROM t\n",
            "SELECT a FROM t WHERE {% if c %}a = 1{% else %}" + w + " = 1  and b = 2{% endif %}\n",
        ]
    return out


def exprout_linter(rs, ci):
    ctx = dict(corpus.T_CTX[ci], **{"w%d" % i: v for i, v in enumerate(EXPR_VALUES)})
    return sq.linter("ansi", "jinja", rules={"all": "all", "layout": "layout"}[rs], configs=sq.jinja_ctx_configs(ctx))


PARAM = {
    "jinja": ("{{ v }}", None),
    "python": ("{a}", None),
    "colon": (":p", "p"),
    "numeric_colon": (":1", "1"),
    "pyformat": ("%(p)s", "p"),
    "dollar": ("$p", "p"),
    "flyway_var": ("${p}", "p"),
    "question_mark": ("?", "1"),
    "numeric_dollar": ("$1", "1"),
    "percent": ("%s", "1"),
    "ampersand": ("&p", "p"),
}
PARAM_SHAPES = [
    "SELECT a FROM t WHERE a = @P@ -- rows after @P@ only\n",
    "SELECT a, b FROM a_rather_long_table_name WHERE a_col = 1 -- keep @P@ here\n",
    "SELECT a, b FROM a_rather_long_table_name WHERE a_col = @P@ -- keep @P@ here\n",
    "SELECT a /* @P@ */ FROM t\n",
    "SELECT a  /* @P@ */  FROM t  -- @P@\n",
    "SELECT  '@P@' FROM t\n",
    "SELECT a FROM t -- @P@\n",
    "-- @P@\nselect a from t\n",
    "select a from t where b = @P@ and c = @P@  -- @P@\n",
    "SELECT a,@P@ FROM t WHERE a IN (@P@,@P@)  \n",
    "SELECT a FROM t WHERE a = @P@",
]


def param_linter(case):
    tpl, mll = case["tpl"], case.get("mll") or 0
    core = {"max_line_length": mll} if mll else {}
    if tpl == "jinja":
        cfgs = {"core": core, "templater": {"jinja": {"context": {"v": "zz"}}}}
        return sq.linter("ansi", "jinja", rules="all", configs=cfgs)
    if tpl == "python":
        return sq.linter("ansi", "python", rules="all", configs={"core": core, "templater": {"python": {"context": {"a": "zz"}}}})
    return sq.linter("ansi", "placeholder", rules="all", configs={"core": core, "templater": {"placeholder": {"param_style": tpl, PARAM[tpl][1]: "zz"}}})


def get_linter(kind, rs, ci):
    rules = {"all": "all", "layout": "layout", "nojj": "all"}[rs]
    ex = "JJ01" if rs == "nojj" else None
    if kind == "jinja":
        return sq.linter("ansi", "jinja", rules=rules, exclude_rules=ex, configs=sq.jinja_ctx_configs(corpus.T_CTX[ci]))
    if kind == "python":
        return sq.linter("ansi", "python", rules=rules, configs={"templater": {"python": {"context": {"a": "x", "sqlfluff": {"a.b": "y"}}}}})
    return sq.linter("ansi", "placeholder", rules=rules, configs={"templater": {"placeholder": {"param_style": "colon", "p": "zz"}}})


def norm_tag(s):
    return re.sub(r"\s+", "", s)


def tags(tf):
    return [rs.raw for rs in tf.raw_sliced if rs.slice_type != "literal"]


def patch_sig(lf):
    """Signature of the known token-spans-a-tag call site: some applied source patch has an
    inverted source slice, or strictly contains a source-only (tag/comment) slice."""
    try:
        for p in lf.source_patches or []:
            if p.source_slice.start > p.source_slice.stop:
                return True
            for so in lf.templated_file.source_only_slices():
                s0, s1 = so.source_idx, so.source_idx + len(so.raw)
                if p.source_slice.start <= s0 and s1 <= p.source_slice.stop and (p.source_slice.start, p.source_slice.stop) != (s0, s1):
                    return True
    except Exception:
        pass
    return False


def run_case(case):
    res = {"n": 0, "fails": [], "cls": set(), "stats": {}, "nontrivial": 0}
    kind = case["k"]
    texts = case["ts"] if kind == "jinja" else case["ss"]
    ctxs = range(len(corpus.T_CTX)) if kind in ("jinja", "exprout") else [0]
    for text in texts:
        for ci in ctxs:
            if "ctx" in case and case["ctx"] != ci:
                continue
            res["n"] += 1
            one = {"k": kind, "rs": case["rs"], ("ts" if kind == "jinja" else "ss"): [text], "ctx": ci}
            if kind == "param":
                one.update({"tpl": case["tpl"], "mll": case.get("mll", 0)})
                lnt = param_linter(case)
            elif kind == "exprout":
                lnt = exprout_linter(case["rs"], ci)
            else:
                lnt = get_linter(kind, case["rs"], ci)

            def add(clause, features, detail, _one=one):
                res["fails"].append({"clause": clause, "features": features, "detail": detail, "case": _one})

            try:
                lf, fixed = fixfam.run_fix(lnt, text)
            except Exception:
                fixfam.bump(res, "fix_exception")
                continue
            if fixed is None or fixed == text:
                continue
            before = tags(lf.templated_file)
            try:
                r2 = sq.render(lnt, fixed)
            except Exception as e:
                add("fixed_render_crash", {"type": type(e).__name__}, {"fixed": fixed[:200]})
                continue
            if not r2.templated_variants:
                wsc = any(m in text for m in ("{%-", "-%}", "{{-", "-}}", "{#-", "-#}"))
                add("fixed_does_not_render", {"patch_inverted_or_spans_tag": patch_sig(lf), **({"whitespace_control": True} if wsc else {})}, {"fixed": fixed[:200], "tmp": [v.desc()[:80] for v in r2.templater_violations][:2]})
                continue
            after = tags(r2.templated_variants[0])
            jj = case["rs"] != "nojj" and case["rs"] != "layout"
            a, b = (list(map(norm_tag, before)), list(map(norm_tag, after))) if jj else (before, after)
            if a != b:
                # signature: some applied patch has an inverted source slice or strictly contains a source-only slice
                inverted = patch_sig(lf)
                kind_d = "duplicated" if len(b) > len(a) else ("lost" if len(b) < len(a) else "changed")
                wsc = any(m in text for m in ("{%-", "-%}", "{{-", "-}}", "{#-", "-#}"))
                add("tags_changed", {"kind": kind_d, "patch_inverted_or_spans_tag": inverted, **({"whitespace_control": True} if wsc else {})}, {"fixed": fixed[:200], "before": before[:6], "after": after[:6]})
            if before:
                res["nontrivial"] += 1
                res.setdefault("sample", one)
                res["cls"].add(digest((text, fixed)))
    return res
