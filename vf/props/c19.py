"""C19 All entry points agree (three-way differential)."""

from __future__ import annotations

import itertools

from vf.core import digest
from vf.props import clifam

LEVEL = "exploration"
RULE = (
    "the C18 scenario space (error x fixable x suppression x fix_even_unparsable, + warnings and loop-limit axes) plus inline `-- sqlfluff:` "
    "directive scenarios (rule option, exclude_rules, max_line_length); each file linted and fixed as a path, through stdin with "
    "--stdin-filename naming that path, and through the Python API (Linter with FluffConfig.from_path, and sqlfluff.lint/fix with "
    "config_path). Oracle: violation records (code, line, pos, description, warning, has-fix), fixed text and exit status pairwise equal. "
    "Non-trivial = the file has at least one violation."
)
ASSUMPTIONS = ["stdin is given --stdin-filename f.sql in the same working directory, so config discovery is identical by construction"]
BOUND = {"quick": "all scenarios x {lint, fix, format} x {path, stdin, API}", "thorough": "same"}
FLOOR = {"quick": 100, "thorough": 100}
CHUNK = 1

INLINE = [
    {"inline": "-- sqlfluff:rules:capitalisation.keywords:capitalisation_policy:upper\nselect a from b\n"},
    {"inline": "-- sqlfluff:exclude_rules:LT01\nSELECT a  from b\n"},
    {"inline": "-- sqlfluff:max_line_length:10\nSELECT a, b, c, d, e FROM tbl\n", "rules": "LT05"},
    {"inline": "-- sqlfluff:rules:LT01\nSELECT a  from b\n"},
    {"inline": "-- sqlfluff:dialect:tsql\nSELECT [a]  from b\n"},
    # nested configuration: the file lives in a sub-directory with its own .sqlfluff (rule option / rule
    # selection / templater context); stdin is given --stdin-filename sub/f.sql
    {"inline": "select a  from b\n", "file": "sub/f.sql", "extra": {"sub/.sqlfluff": "[sqlfluff:rules:capitalisation.keywords]\ncapitalisation_policy = upper\n"}},
    {"inline": "SELECT a  from b\n", "file": "sub/f.sql", "extra": {"sub/.sqlfluff": "[sqlfluff]\nexclude_rules = LT01\n"}},
    {"inline": "SELECT {{ col }}  from {{ tbl }}\n", "file": "sub/f.sql", "extra": {"sub/.sqlfluff": "[sqlfluff:templater:jinja:context]\ncol = a\ntbl = b\n"}},
    {"inline": "SELECT {{ col }}  from b\n", "file": "sub/deep/f.sql", "extra": {"sub/.sqlfluff": "[sqlfluff:templater:jinja:context]\ncol = a\n", "sub/deep/.sqlfluff": "[sqlfluff]\nrules = CP01\n"}},
    # non-ASCII text (a path is decoded from bytes by sqlfluff, stdin and the API receive str): early, and only after
    # a long pure-ASCII prefix (1 KiB, 4 KiB, 64 KiB boundaries of anything that looks at a prefix of the file)
    {"inline": "SELECT 'é'  from b -- ü\n"},
    {"inline": "SELECT a  from b -- " + "x" * 1100 + "\nSELECT 'é'  from b -- ü\n"},
    {"inline": "SELECT a  from b\n" * 300 + "SELECT 'é中'  from b\n"},
    {"inline": "SELECT a  from b -- " + "x" * 70000 + "\nSELECT 'é'  from b\n", "cfg_extra": "large_file_skip_byte_limit = 0\n"},
    # templated files in the project root
    {"inline": "SELECT {% if true %}a{% else %}b{% endif %}  from b\n"},
    {"inline": "SELECT a {% for x in [1, 2] %}, {{ x }} {% endfor %} from b  \n"},
]


def cases(tier):
    out = [{"k": "s", "s": s} for s in clifam.scenarios(tier)]
    for i in range(len(INLINE)):
        out.append({"k": "inline", "i": i})
        if INLINE[i]["inline"].startswith("-- sqlfluff:"):
            # every accepted spelling / placement / line ending of the directive line
            for sp, pl, crlf in itertools.product((0, 1), (0, 1), (0, 1)):
                if sp or pl or crlf:
                    out.append({"k": "inline", "i": i, "sp": sp, "pl": pl, "crlf": crlf})
    return out


def directive_text(case):
    text = INLINE[case["i"]]["inline"]
    if case.get("sp") or case.get("pl") or case.get("crlf"):
        head, _, rest = text.partition("\n")
        if case.get("sp"):
            head = "--" + head[3:]  # '--sqlfluff:' (no space) is accepted as well
        text = (rest + head + "\n") if case.get("pl") else (head + "\n" + rest)
        if case.get("crlf"):
            text = text.replace("\n", "\r\n")
    return text


def compare(obs, add, res, cli_flags=False):
    lp, ls, la = obs["lint_path"], obs["lint_stdin"], obs["lint_api"]
    res["n"] += 3
    if lp["records"] != ls["records"]:
        add("lint_records_path_vs_stdin", {}, {"path": lp["records"], "stdin": ls["records"]})
    if lp["records"] != la["records"]:
        add("lint_records_path_vs_api", {}, {"path": lp["records"], "api": la["records"]})
    sa = obs.get("lint_simple_api", {})
    if cli_flags:
        sa = {}  # the simple API call cannot be given the CLI-only flag; not comparable
    if "records" in sa and sa["records"] != lp["records"]:
        add("lint_records_path_vs_simple_api", {}, {"path": lp["records"], "api": sa["records"]})
    if lp["rc"] != ls["rc"]:
        add("lint_exit_path_vs_stdin", {}, {"path": lp["rc"], "stdin": ls["rc"]})
    for cmd in ("fix", "format"):
        p, s_ = obs[cmd + "_path"], obs[cmd + "_stdin"]
        res["n"] += 2
        if p["text"] != s_["text"]:
            add(cmd + "_text_path_vs_stdin", {}, {"path": p["text"][:200], "stdin": s_["text"][:200]})
        if p["rc"] != s_["rc"]:
            add(cmd + "_exit_path_vs_stdin", {}, {"path": p["rc"], "stdin": s_["rc"]})
    fa = obs.get("fix_simple_api", {}) if not cli_flags else {}
    if "text" in fa and fa["text"] != obs["fix_path"]["text"]:
        add("fix_text_path_vs_simple_api", {}, {"path": obs["fix_path"]["text"][:200], "api": fa["text"][:200]})
    fl = obs.get("fix_lint_paths", {})
    if "text" in fl and fl["text"] != obs["fix_path"]["text"]:
        add("fix_text_path_vs_lint_paths", {}, {"path": obs["fix_path"]["text"][:200], "api": fl["text"][:200]})
    return bool(lp["records"])


def run_case(case):
    res = {"n": 0, "fails": [], "cls": set(), "stats": {}, "nontrivial": 0}
    if case["k"] == "inline":
        spec = INLINE[case["i"]]
        s = {
            "err": "none", "fix": "none", "supp": "none", "feu": False, "inline": [case["i"], case.get("sp", 0), case.get("pl", 0), case.get("crlf", 0)],
            "text": directive_text(case),
            "cfg": "[sqlfluff]\ndialect = ansi\nrules = %s\n" % spec.get("rules", "LT01,CP01") + spec.get("cfg_extra", ""),
        }
        if "file" in spec:
            s["file"] = spec["file"]
            s["extra_files"] = spec["extra"]
        obs = clifam.observe(s)
        if "file" in spec:
            # the simple API takes one config file, it cannot see the nested one: not comparable
            obs.pop("lint_simple_api", None)
            obs.pop("fix_simple_api", None)
        feats = {"inline_config": "file" not in spec, "nested_config": "file" in spec}
    else:
        s = case["s"]
        obs = clifam.observe(s)
        feats = {"err": s["err"], "supp": s["supp"], "feu": bool(s.get("feu")), "warn": s.get("warn", "none"), "fix": s["fix"]}

    def add(clause, features, detail):
        res["fails"].append({"clause": clause, "features": dict(feats, **features), "detail": detail})

    if compare(obs, add, res, cli_flags=bool(case.get('s') and clifam.SUPP[case['s']['supp']][2])):
        res["nontrivial"] = 1
    res["cls"].add(digest((obs["lint_path"]["records"], obs["fix_path"]["text"])))
    clifam.cleanup_case(s)
    return res
