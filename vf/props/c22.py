"""C22 Exit codes reflect only unsuppressed failures (exit-code model + full replay)."""

from __future__ import annotations

from vf import cli
from vf.core import digest
from vf.props import clifam

LEVEL = "model_checking"
RULE = (
    "the C18 scenario space x warnings {none, LT01, LT01+CP01, PRS+TMP} x commands {lint, fix, format} x {path, stdin}, plus usage errors "
    "(unknown dialect, --rules with format, missing path, -q with -v, unknown option). Model (inputs are measured, not predicted: the "
    "visible violations with warning/fixable flags from the API, and the unsuppressed baseline for 'has TMP/PRS'): lint = 1 iff some visible "
    "violation is not a warning; fix/format = 1 iff some visible non-warning lint violation cannot be fixed (no fix, fix withheld because "
    "the file has a TMP/PRS error and fix_even_unparsable is off, or loop limit) or a visible non-warning TMP/PRS error blocks fixing; "
    "usage/config errors = 2. Every model case is replayed. Non-trivial = the scenario has >= 1 violation of any kind."
)
ASSUMPTIONS = ["format is judged only on scenarios whose fixable ingredient is covered by the format rule list (LT01, CP01 are)"]
BOUND = {"quick": "all scenarios x 6 command/entry combinations + 6 usage errors", "thorough": "same"}
FLOOR = {"quick": 100, "thorough": 100}
CHUNK = 1

USAGE = [
    (["lint", "f.sql", "--dialect", "nonexistent_dialect"], 2),
    (["format", "f.sql", "--rules", "LT01"], 2),
    (["lint", "does_not_exist.sql"], 2),
    (["lint", "f.sql", "-q", "-v"], 2),
    (["lint", "f.sql", "--no-such-option"], 2),
    (["fix", "f.sql", "--dialect", "nonexistent_dialect"], 2),
]


def cases(tier):
    out = [{"k": "s", "s": s} for s in clifam.scenarios(tier)]
    for i in range(len(USAGE)):
        out.append({"k": "usage", "i": i})
    # two files under one path: the exit status is the worst of the per-file statuses, whatever the
    # order of the files (an error in one file must not leak into the other's accounting)
    import itertools

    singles = []
    for err, supp in (("none", "none"), ("prs", "none"), ("prs", "noqa_prs"), ("prs", "noqa"), ("tmp_undefined", "noqa_prs"), ("unbalanced", "noqa_prs")):
        for fx in ("none", "lt01", "cp01"):
            singles.append({"err": err, "fix": fx, "supp": supp, "feu": False})
    for a, b in itertools.product(singles, repeat=2):
        if a["err"] == "none" and b["err"] == "none":
            continue
        out.append({"k": "two", "a": a, "b": b})
    return out


def run_two(case, res):
    import json
    import os

    from sqlfluff.core import FluffConfig, Linter

    a, b = case["a"], case["b"]
    s = {"err": "none", "fix": "none", "supp": "none", "feu": False, "two": [a, b]}
    d = clifam.mkdir(dict(s, text="SELECT 1\n", cfg="[sqlfluff]\ndialect = ansi\nrules = LT01,CP01\n", file="zz_unused.txt"), "two")
    texts = {"f1.sql": clifam.scenario_text(a), "f2.sql": clifam.scenario_text(b)}
    per_file = {}
    old = os.getcwd()
    os.chdir(d)
    try:
        for n, t in texts.items():
            with open(n, "w") as f:
                f.write(t)
        for n, t in texts.items():
            lf = Linter(config=FluffConfig.from_path(n)).lint_string(t, fname=n)
            visible = clifam.api_records(lf)
            base = clifam.baseline(a if n == "f1.sql" else b)
            has_err = any(c in ("TMP", "PRS") for c, _, _ in base)
            per_file[n] = model(visible, has_err, {"feu": False}, None)
    finally:
        os.chdir(old)
    want_lint = max(v[0] for v in per_file.values())
    want_fix = max(v[1] for v in per_file.values())
    for cmd, want in (("lint", want_lint), ("fix", want_fix)):
        import shutil

        d2 = d + "-" + cmd
        shutil.copytree(d, d2)
        rc, out, err, exc = cli.run([cmd, "."], cwd=d2)
        shutil.rmtree(d2, ignore_errors=True)
        res["n"] += 1
        if rc != want:
            feats = {"entry": cmd + "_dir2", "err_a": a["err"], "supp_a": a["supp"], "err_b": b["err"], "supp_b": b["supp"], "got": rc, "want": want}
            res["fails"].append({"clause": "exit_code_two_files", "features": feats, "detail": {"per_file_model": per_file, "texts": texts, "exc": (exc or "")[-200:]}})
    res["nontrivial"] = 1
    res["cls"].add(digest((json.dumps(case, sort_keys=True), want_lint, want_fix)))
    clifam.cleanup_case(dict(s, text="SELECT 1\n", cfg="[sqlfluff]\ndialect = ansi\nrules = LT01,CP01\n", file="zz_unused.txt"))


def model(visible, has_err, s, fixable_any):
    """visible: [(code, line, pos, desc, warning, has_fix)] -> (lint_rc, fix_rc)"""
    lint_rc = 1 if any(not w for _, _, _, _, w, _ in visible) else 0
    feu = bool(s.get("feu"))
    fix_rc = 0
    for code, _, _, _, w, hf in visible:
        if w:
            continue
        if code in ("TMP", "PRS"):
            if not feu:
                fix_rc = 1
        else:
            if not hf:
                fix_rc = 1
            elif has_err and not feu:
                fix_rc = 1
            elif s.get("rl") == 1:
                fix_rc = 1
    return lint_rc, fix_rc


def run_case(case):
    res = {"n": 0, "fails": [], "cls": set(), "stats": {}, "nontrivial": 0}
    if case["k"] == "usage":
        args, want = USAGE[case["i"]]
        s = {"err": "none", "fix": "lt01", "supp": "none", "feu": False, "usage": case["i"]}
        d = clifam.mkdir(s, "u")
        rc, out, err, exc = cli.run(args, cwd=d)
        res["n"] = 1
        if rc != want:
            res["fails"].append({"clause": "usage_exit", "features": {"args": " ".join(args)}, "detail": {"rc": rc, "want": want, "exc": (exc or "")[-200:]}})
        res["nontrivial"] = 1
        clifam.cleanup_case(s)
        return res
    if case["k"] == "two":
        run_two(case, res)
        return res
    s = case["s"]
    obs = clifam.observe(s, want=("lint", "fix", "format", "api"))
    base = clifam.baseline(s)
    has_err = any(c in ("TMP", "PRS") for c, _, _ in base)
    visible = obs["lint_api"]["records"]
    lint_rc, fix_rc = model(visible, has_err, s, None)
    # `format` has no fix_even_unparsable switch (the CLI passes False): errors always block it
    # ... and it runs its own fixed rule list, so what is visible to it is measured under that list
    from sqlfluff.core import FluffConfig, Linter
    from vf.props import fixfam
    import os

    d = clifam.mkdir(s, "fmtapi")
    old = os.getcwd()
    os.chdir(d)
    try:
        ov = {"rules": fixfam.FORMAT_RULES}
        if clifam.SUPP[s["supp"]][2]:
            ov["ignore"] = clifam.SUPP[s["supp"]][2][1]
        lf = Linter(config=FluffConfig.from_path("f.sql", overrides=ov)).lint_string(obs["text"], fname="f.sql")
        visible_fmt = clifam.api_records(lf)
    finally:
        os.chdir(old)
    _, format_rc = model(visible_fmt, has_err, dict(s, feu=False), None)
    feats = {"err": s["err"], "supp": s["supp"], "feu": bool(s.get("feu")), "warn": s.get("warn", "none"), "fix": s["fix"]}
    for ep, want in (("lint_path", lint_rc), ("lint_stdin", lint_rc), ("fix_path", fix_rc), ("fix_stdin", fix_rc), ("format_path", format_rc), ("format_stdin", format_rc)):
        res["n"] += 1
        got = obs[ep]["rc"]
        if obs[ep].get("loop_limit") and any(not w and c not in ("TMP", "PRS") for c, _, _, _, w, _ in (visible_fmt if ep.startswith("format") else visible)):
            # the linter itself reported that the fix loop gave up: those violations count as unfixable
            want = 1
        if got != want:
            res["fails"].append({"clause": "exit_code", "features": dict(feats, entry=ep, got=got, want=want), "detail": {"visible": visible, "text": obs["text"]}})
    if base:
        res["nontrivial"] = 1
    res["cls"].add(digest((tuple(visible), lint_rc, fix_rc)))
    clifam.cleanup_case(s)
    return res


def post(agg, tier):
    return {"states": len(agg["classes"]), "transitions": agg["n"], "traces_validated_against_impl": agg["n"]}
