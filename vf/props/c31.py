"""C31 Offset-to-line/column conversion is exact (reference model + full replay)."""

from __future__ import annotations

import itertools

from vf.core import digest
from vf.models import linecol as model

LEVEL = "model_checking"
RULE = (
    "every string over {a, \\n, \\r} of length <= n x every offset 0..len, on the source side and on the templated side of a "
    "TemplatedFile (source != templated, so the two newline tables differ), every pair (source, rendered) of equal length <= 5 (thorough 7) over {a, newline} whose "
    "slices have identical source and rendered ranges (content differs, ranges do not), plus PositionMarker.source_position/templated_position "
    "through a real marker; infer_next_position(raw, l, c) for every raw over {a, \\n} of length <= 6 and l, c in {1, 2, 5}. Every model "
    "case is replayed against the implementation. Non-trivial = the text contains a newline before the offset (line > 1)."
)
ASSUMPTIONS = ["small-scope exhaustive replay, not a proof (proof is a different technique family)"]
BOUND = {"quick": "strings <= 11 over 3 chars (265k) x all offsets", "thorough": "strings <= 13 (2.4M) x all offsets"}
FLOOR = {"quick": 100000, "thorough": 1000000}
CHUNK = 1


def cases(tier):
    n = 11 if tier == "quick" else 13
    out = []
    for k in range(0, n + 1):
        if k <= 5:
            out.append({"k": "len", "n": k, "p": ""})
        else:
            for p in itertools.product("a\n\r", repeat=k - 5):
                out.append({"k": "len", "n": k, "p": "".join(p)})
    out.append({"k": "next"})
    # every PAIR (source, rendered) of equal length over {a, newline} with every way of cutting it into <= 2 slices
    # whose source and rendered ranges coincide (a value exactly as long as its placeholder may still move a newline)
    for k in range(1, 6 if tier == "quick" else 8):
        out.append({"k": "samelen", "n": k})
    return out


def run_case(case):
    from sqlfluff.core.parser.markers import PositionMarker
    from sqlfluff.core.templaters.base import TemplatedFile, TemplatedFileSlice, RawFileSlice

    res = {"n": 0, "fails": [], "cls": set(), "stats": {}, "nontrivial": 0}
    if case["k"] == "next":
        for k in range(0, 7):
            for tup in itertools.product("a\n", repeat=k):
                raw = "".join(tup)
                for l in (1, 2, 5):
                    for c in (1, 2, 5):
                        res["n"] += 1
                        want = model.next_position(raw, l, c)
                        got = PositionMarker.infer_next_position(raw, l, c)
                        if tuple(got) != want:
                            res["fails"].append({"clause": "infer_next_position", "features": {}, "detail": {"raw": raw, "l": l, "c": c, "want": want, "got": list(got)}, "case": {"k": "next"}})
                        if "\n" in raw:
                            res["nontrivial"] += 1
        return res
    if case["k"] == "samelen":
        n = case["n"]
        strs = ["".join(t) for t in itertools.product("a\n", repeat=n)]
        for src in strs:
            for templ in strs:
                for cut in range(0, n):
                    if cut == 0:
                        sl = [TemplatedFileSlice("templated", slice(0, n), slice(0, n))]
                        rs = [RawFileSlice(src, "templated", 0)]
                    else:
                        if src[:cut] != templ[:cut]:
                            continue  # the first slice is a literal: identical text on both sides
                        sl = [TemplatedFileSlice("literal", slice(0, cut), slice(0, cut)), TemplatedFileSlice("templated", slice(cut, n), slice(cut, n))]
                        rs = [RawFileSlice(src[:cut], "literal", 0), RawFileSlice(src[cut:], "templated", cut)]
                    tf = TemplatedFile(source_str=src, fname="f", templated_str=templ, sliced_file=sl, raw_sliced=rs)
                    for pos in range(n + 1):
                        res["n"] += 2
                        ws, wt = model.linecol(src, pos), model.linecol(templ, pos)
                        gs, gt = tuple(tf.get_line_pos_of_char_pos(pos, source=True)), tuple(tf.get_line_pos_of_char_pos(pos, source=False))
                        one = {"k": "samelen1", "src": src, "templ": templ, "cut": cut}
                        if gs != ws:
                            res["fails"].append({"clause": "source_linecol", "features": {"same_ranges": True}, "detail": {"pos": pos, "want": ws, "got": list(gs)}, "case": one})
                        if gt != wt:
                            res["fails"].append({"clause": "templated_linecol", "features": {"same_ranges": True}, "detail": {"pos": pos, "want": wt, "got": list(gt)}, "case": one})
                    if src != templ:
                        res["nontrivial"] += 1
                        res.setdefault("sample", {"src": src, "templ": templ})
            res["cls"].add(digest(src))
        return res
    if case["k"] == "samelen1":
        src, templ, cut, n = case["src"], case["templ"], case["cut"], len(case["src"])
        sl = [TemplatedFileSlice("templated", slice(0, n), slice(0, n))] if cut == 0 else [TemplatedFileSlice("literal", slice(0, cut), slice(0, cut)), TemplatedFileSlice("templated", slice(cut, n), slice(cut, n))]
        rs = [RawFileSlice(src, "templated", 0)] if cut == 0 else [RawFileSlice(src[:cut], "literal", 0), RawFileSlice(src[cut:], "templated", cut)]
        tf = TemplatedFile(source_str=src, fname="f", templated_str=templ, sliced_file=sl, raw_sliced=rs)
        for pos in range(n + 1):
            res["n"] += 1
            if tuple(tf.get_line_pos_of_char_pos(pos, source=False)) != model.linecol(templ, pos) or tuple(tf.get_line_pos_of_char_pos(pos, source=True)) != model.linecol(src, pos):
                res["fails"].append({"clause": "templated_linecol", "features": {"same_ranges": True}, "detail": {"pos": pos}})
        return res
    rest = case["n"] - len(case["p"])
    for tup in itertools.product("a\n\r", repeat=rest):
        s = case["p"] + "".join(tup)
        # source = s, templated = "x\n" + s  (distinct newline tables for the two sides)
        templ = "x\n" + s
        tf = TemplatedFile(
            source_str=s + "{{q}}",
            fname="f",
            templated_str=templ,
            sliced_file=[
                TemplatedFileSlice("templated", slice(len(s), len(s) + 5), slice(0, 2)),
                TemplatedFileSlice("literal", slice(0, len(s)), slice(2, 2 + len(s))),
            ] if s else [TemplatedFileSlice("templated", slice(0, 5), slice(0, 2))],
            raw_sliced=[RawFileSlice(s, "literal", 0), RawFileSlice("{{q}}", "templated", len(s))] if s else [RawFileSlice("{{q}}", "templated", 0)],
        )
        src = s + "{{q}}"
        for pos in range(len(s) + 1):
            res["n"] += 2
            want = model.linecol(src, pos)
            got = tf.get_line_pos_of_char_pos(pos, source=True)
            if tuple(got) != want:
                res["fails"].append({"clause": "source_linecol", "features": {}, "detail": {"text": src, "pos": pos, "want": want, "got": list(got)}, "case": {"k": "len", "n": len(s), "p": s}})
            wt = model.linecol(templ, pos + 2)
            gt = tf.get_line_pos_of_char_pos(pos + 2, source=False)
            if tuple(gt) != wt:
                res["fails"].append({"clause": "templated_linecol", "features": {}, "detail": {"text": templ, "pos": pos + 2, "want": wt, "got": list(gt)}, "case": {"k": "len", "n": len(s), "p": s}})
            if want[0] > 1:
                res["nontrivial"] += 1
                res.setdefault("sample", {"text": src, "pos": pos})
            if len(s) <= 6:
                pm = PositionMarker(slice(pos, pos), slice(pos + 2, pos + 2), tf)
                if tuple(pm.source_position()) != want or tuple(pm.templated_position()) != wt:
                    res["fails"].append({"clause": "marker_position", "features": {}, "detail": {"text": src, "pos": pos}, "case": {"k": "len", "n": len(s), "p": s}})
                if (pm.line_no, pm.line_pos) != want:
                    res["fails"].append({"clause": "marker_line_no", "features": {}, "detail": {"text": src, "pos": pos, "got": [pm.line_no, pm.line_pos], "want": want}, "case": {"k": "len", "n": len(s), "p": s}})
        res["cls"].add(digest(tuple(tf._source_newlines)))
    return res


def post(agg, tier):
    return {"states": len(agg["classes"]), "transitions": agg["n"], "traces_validated_against_impl": agg["n"]}
