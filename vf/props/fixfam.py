"""Shared input families and fix driver for the fix-level properties
(C05, C12, C13, C14, C15, C17, C23, C33 ...)."""

from __future__ import annotations

import json

from vf import corpus, sq

FORMAT_RULES = (
    "capitalisation,layout,ambiguous.union,convention.not_equal,convention.coalesce,"
    "convention.select_trailing_comma,convention.is_null,jinja.padding,structure.distinct"
)
RULESETS = {"all": "all", "layout": "layout", "format": FORMAT_RULES, "core": "core", "capitalisation": "capitalisation", "LT05": "LT05"}

# operator-adjacent inputs, added on purpose (token gluing hazards)
GLUE = [
    "SELECT a - -1 FROM t\n",
    "SELECT a - - b FROM t\n",
    "SELECT 1 .5 FROM t\n",
    "SELECT a /* c */ b FROM t\n",
    "SELECT*FROM t\n",
    "SELECT a FROM t WHERE NOT(a = 1)\n",
    "SELECT a FROM t WHERE a=- 1\n",
    "SELECT a FROM t WHERE a = -1\n",
    "SELECT DISTINCT(a) FROM t\n",
    "SELECT DISTINCT(a), b FROM t\n",
    "SELECT DISTINCT(a)FROM t\n",
    "SELECT a FROM t WHERE a <> 1 AND b != 2\n",
    "SELECT a FROM t WHERE a = 1 -- c\n",
    "SELECT a FROM t WHERE a IS NULL --c\nAND b = 1\n",
    "SELECT a,b,c FROM t\n",
    "SELECT a\n, b\n, c FROM t\n",
    "SELECT a FROM t ORDER BY a ASC, b DESC\n",
    "SELECT CASE WHEN a THEN 1 END FROM t\n",
    "SELECT (a+1)*-2 FROM t\n",
    "SELECT a::INT FROM t\n",
    "SELECT a FROM t1 JOIN t2 USING(a)\n",
    "SELECT a FROM t WHERE a IN(1,2)\n",
    "SELECT COALESCE(a,1),IFNULL(b,2) FROM t\n",
    "select a as A, B as b from T\n",
    "SELECT 'a'  'b' FROM t\n",
    "SELECT a FROM t; ;SELECT b FROM t\n",
    "SELECT a FROM t\nUNION\nSELECT a FROM u\n",
    "SELECT a,\n\n\n    b FROM t\n\n\n\n",
    "\n\nSELECT a FROM t",
    "SELECT a FROM t WHERE a = 1 AND(b = 2)\n",
    "SELECT -a, +b, - c FROM t\n",
    "SELECT a--b\nFROM t\n",
    "SELECT a/*b*/FROM t\n",
    "SELECT 1-1, 1--1, 1- -1 FROM t\n",
    "SELECT - - 1 FROM t\n",
    "SELECT -\n-1 FROM t\n",
    "SELECT a FROM t WHERE a = - - 1\n",
    "SELECT + + 1, - + 1, + - 1 FROM t\n",
    "SELECT foo -- c\n (1) FROM t\n",
    "SELECT f -- c\n(a) FROM t\n",
    "SELECT a FROM t -- c\n;\n",
    "SELECT a FROM t-- c\n; SELECT 1\n",
    "SELECT a /* c */ , b FROM t\n",
    "SELECT a -- c\n, b FROM t\n",
    "SELECT a FROM t WHERE a = 1 -- c\nAND b = 2\n",
    "SELECT a FROM t -- c\nWHERE a = 1\n",
    "SELECT CAST(a AS INT) -- c\n:: TEXT FROM t\n",
    "SELECT a. -- c\n b FROM t AS a\n",
    # self-referencing / mutually shadowing CTEs (rules that resolve sources recursively)
    "WITH c AS (SELECT * FROM c) SELECT * FROM c\n",
    "WITH c AS (SELECT t.* FROM c AS t) SELECT t.* FROM c AS t UNION SELECT 1\n",
    "WITH a AS (SELECT * FROM b), b AS (SELECT * FROM a) SELECT * FROM a\n",
    "CREATE TABLE t (a INT COMMENT 'a long long long long long long long long long long long long long comment', b INT) -- note\n",
]


# every combination of the two options that decide where LT05 may break and LT02 may collapse a line
LAYOUT_PRODUCT = [
    {"core": {"max_line_length": n}, "indentation": {"implicit_indents": m}} for m in ("forbid", "allow", "require") for n in (6, 10, 20, 45)
]


def long_names(s):
    """The same statement with long identifiers (lines stay too long after every ordinary break)."""
    import re

    s = re.sub(r"\ba\b", "a_rather_long_column_name_aaaaaaaaaaaaaaaaaaaaaaa", s)
    return re.sub(r"\bt\b", "some_table_name", s)


def long_tail(s):
    """Long identifiers only after the first FROM (the select targets stay short)."""
    i = s.find(" FROM ")
    return s if i < 0 else s[:i] + long_names(s[i:])


def layout_product_cases(rulesets, group=16):
    base = sorted(set(corpus.G(1)) | set(GLUE))
    base = sorted(set(base) | {long_names(s) for s in base} | {long_tail(s) for s in base}, key=lambda s: (len(s), s))
    out = []
    for rs in rulesets:
        for cfg in LAYOUT_PRODUCT:
            for i in range(0, len(base), group):
                out.append({"k": "strs", "d": "ansi", "rs": rs, "ss": base[i : i + group], "cfg": cfg})
    return out


def layout_sweep_configs():
    """Every layout / indentation option moved away from its default, ONE at a time (bounded deviation in
    configuration space), each to every other documented value."""
    out = []
    ind = {
        "indent_unit": ["tab"], "tab_space_size": [2, 8], "indented_joins": [True], "indented_ctes": [True], "indented_using_on": [False],
        "indented_on_contents": [False], "indented_then": [False], "indented_then_contents": [False], "implicit_indents": ["allow", "require"],
        "trailing_comments": ["after"], "ignore_comment_lines": [True],
    }
    for k, vs in ind.items():
        for v in vs:
            out.append({"indentation": {k: v}})
    lay = {
        "comma": {"spacing_before": ["single", "any"], "spacing_after": ["touch", "any"], "line_position": ["leading"]},
        "binary_operator": {"spacing_within": ["single", "any"], "line_position": ["trailing"]},
        "comparison_operator": {"spacing_within": ["single"], "line_position": ["trailing"]},
        "statement_terminator": {"spacing_before": ["single", "any"], "line_position": ["leading", "alone"]},
        "set_operator": {"line_position": ["leading", "trailing", "alone"]},
        "start_bracket": {"spacing_after": ["single", "any"]},
        "end_bracket": {"spacing_before": ["single", "any"]},
        "casting_operator": {"spacing_before": ["single"], "spacing_after": ["single"]},
        "function_name": {"spacing_within": ["single"]},
        "keyword": {"spacing_before": ["any"], "spacing_after": ["any"]},
    }
    for t, opts in lay.items():
        for k, vs in opts.items():
            for v in vs:
                out.append({"layout": {"type": {t: {k: v}}}})
    return out


def layout_sweep_cases(rulesets, group=16):
    base = sorted(set(corpus.G(1)) | set(GLUE), key=lambda s: (len(s), s))
    out = []
    for rs in rulesets:
        for cfg in layout_sweep_configs():
            for i in range(0, len(base), group):
                out.append({"k": "strs", "d": "ansi", "rs": rs, "ss": base[i : i + group], "cfg": cfg})
    return out


def lt05_product_cases(rulesets=("LT05", "all"), group=16):
    """Multi-line files (every ordered triple of 5 statements, some carrying inline / block / multi-line block comments, long
    identifiers) x LT05's two comment options x max_line_length {30, 50}: long lines with comments that move
    when the lines above them are broken, so the fix needs several passes."""
    import itertools

    stmts = [
        "SELECT a, b, t.b FROM t;",
        "SELECT a FROM t; -- a trailing comment here",
        "SELECT a + b AS x, -- keep me\n    a FROM t;",
        "SELECT a, b FROM t WHERE a = 1; /* c */",
        "SELECT a, b FROM t WHERE b = 2; /* this one\nis documented afterwards */",
    ]
    files = sorted({long_names("\n".join(tr) + "\n") for tr in itertools.product(stmts, repeat=3)})
    out = []
    for rs in rulesets:
        for icl, icc, mll in itertools.product((False, True), (False, True), (30, 50)):
            cfg = {"core": {"max_line_length": mll}, "rules": {"layout.long_lines": {"ignore_comment_lines": icl, "ignore_comment_clauses": icc}}}
            for i in range(0, len(files), group):
                out.append({"k": "strs", "d": "ansi", "rs": rs, "ss": files[i : i + group], "cfg": cfg})
    return out


def ruleopts_cases():
    from vf.props import c05

    return [{"k": "ruleopts", "rule": code, "name": name, "opts": opts} for code, name, opts in c05.rule_option_assignments()]


def raw_strings(tier, ops="WKME"):
    base = corpus.G(1) if tier == "quick" else corpus.G(2)
    ss = set(corpus.D(base, 1, ops)) | set(GLUE)
    if tier == "thorough":
        ss |= set(corpus.D(corpus.G(1), 2, "WK"))
    return sorted(ss, key=lambda s: (len(s), s))


def yaml_inputs():
    """Distinct (sql, configs_json) pairs from the rule YAML fixtures."""
    seen = set()
    out = []
    for rule, name, kind, sql, configs in corpus.yaml_cases():
        cj = json.dumps(configs, sort_keys=True)
        if (sql, cj) in seen:
            continue
        seen.add((sql, cj))
        out.append((rule, name, kind, sql, cj))
    return out


def fix_cases(tier, rulesets_raw=("layout", "all"), rulesets_yaml=("all",), ops="WKME", group=16, yaml=True, raw=True, rulesets_fixtures=(), rulesets_fixture_gaps=()):
    out = []
    # every dialect fixture up to the byte bound, fixed in its OWN dialect (dialect-specific token
    # shapes: hive `a.b-c=d`, soql `LAST_N_WEEKS:5`, tsql `[a b]`, ...)
    if rulesets_fixtures:
        fx = corpus.fixtures(250 if tier == "quick" else 1000)
        for rs in rulesets_fixtures:
            for i in range(0, len(fx), 8):
                out.append({"k": "fx", "rs": rs, "ids": [f[1] for f in fx[i : i + 8]]})
    if rulesets_fixture_gaps:
        # every small dialect fixture with an inline comment + newline inserted after EVERY token in turn
        # (dialect-specific constructs next to a comment: MATERIALIZED CTEs, semi-structured paths, ...)
        fx = corpus.fixtures(80 if tier == "quick" else 150)
        for rs in rulesets_fixture_gaps:
            for i in range(0, len(fx), 4):
                out.append({"k": "fxk", "rs": rs, "ids": [f[1] for f in fx[i : i + 4]]})
    if raw:
        ss = raw_strings(tier, ops)
        for rs in rulesets_raw:
            for i in range(0, len(ss), group):
                out.append({"k": "strs", "d": "ansi", "rs": rs, "ss": ss[i : i + group]})
    if yaml:
        ys = yaml_inputs()
        for rs in rulesets_yaml:
            for i in range(0, len(ys), group):
                out.append({"k": "yaml", "rs": rs, "ids": [[y[0], y[1], y[2]] for y in ys[i : i + group]]})
    return out


_Y = {}
_FX = {}


def expand(case):
    """-> (one_case, linter, text)"""
    k = case["k"]
    if k == "strs":
        lnt = sq.linter(case["d"], "raw", rules=RULESETS[case["rs"]], configs=case.get("cfg"))
        for s in case["ss"]:
            yield {"k": "strs", "d": case["d"], "rs": case["rs"], "ss": [s], **({"cfg": case["cfg"]} if case.get("cfg") else {})}, lnt, s
    elif k == "fx":
        if not _FX:
            for d, p, t in corpus.fixtures(10**9):
                _FX[p] = (d, t)
        for p in case["ids"]:
            d, t = _FX[p]
            yield {"k": "fx", "rs": case["rs"], "ids": [p]}, sq.linter(d, "raw", rules=RULESETS[case["rs"]]), t
    elif k == "fxk":
        from sqlfluff.core import Lexer

        if not _FX:
            for d, p, t in corpus.fixtures(10**9):
                _FX[p] = (d, t)
        for p in case["ids"]:
            d, t = _FX[p]
            lnt = sq.linter(d, "raw", rules=RULESETS[case["rs"]])
            try:
                toks, _ = Lexer(config=lnt.config).lex(t)
            except Exception:
                continue
            off, ends = 0, []
            for x in toks:
                if x.raw:
                    off += len(x.raw)
                    ends.append(off)
            if off != len(t):
                continue
            for gi, e in enumerate(ends[:-1]):
                if "gap" in case and case["gap"] != gi:
                    continue
                yield {"k": "fxk", "rs": case["rs"], "ids": [p], "gap": gi}, lnt, t[:e] + " -- c\n" + t[e:]
    elif k == "ruleopts":
        # every assignment of <= 2 enumerated options of one rule x that rule's YAML strings + operator list (see c05)
        from vf.props import c05

        yield from c05.ruleopts_items(case)
    elif k == "yaml":
        if not _Y:
            for y in yaml_inputs():
                _Y[(y[0], y[1], y[2])] = y
        for rid in case["ids"]:
            y = _Y[tuple(rid)]
            configs = json.loads(y[4])
            d = (configs.get("core") or {}).get("dialect") or "ansi"
            tpl = (configs.get("core") or {}).get("templater")
            try:
                lnt = sq.linter(d, tpl, rules=RULESETS[case["rs"]], configs=configs)
            except Exception:
                continue
            yield {"k": "yaml", "rs": case["rs"], "ids": [rid]}, lnt, y[3]
    else:
        raise ValueError(k)


def run_fix(lnt, text):
    """Fix once. -> dict(lf, fixed, ok) ; exceptions propagate to the caller."""
    lf = lnt.lint_string(text, fix=True)
    fixed = None
    if lf.tree is not None and lf.templated_file is not None:
        fixed, _ = lf.fix_string()
    return lf, fixed


def has_parse_errors(violations):
    return any(v.rule_code() in ("TMP", "LXR", "PRS") for v in violations)


def lex_text(lnt, text):
    from sqlfluff.core import Lexer

    toks, errs = Lexer(config=lnt.config).lex(text)
    return toks, errs


def kind_of(seg):
    if seg.is_type("whitespace"):
        return "ws"
    if seg.is_type("newline"):
        return "nl"
    if seg.is_comment:
        return "comment"
    return "code"


def make_runner(oracle, need_fix=True, on_exception=None):
    """Build run_case: for each expanded input, fix once and hand to oracle(one, lnt, text, lf, fixed, add, res)."""

    def run_case(case):
        res = {"n": 0, "fails": [], "cls": set(), "stats": {}, "nontrivial": 0}
        for one, lnt, text in expand(case):
            res["n"] += 1

            def add(clause, features, detail, _one=one):
                res["fails"].append({"clause": clause, "features": features, "detail": detail, "case": _one})

            try:
                lf, fixed = run_fix(lnt, text)
            except Exception as e:
                res["stats"]["fix_exception"] = res["stats"].get("fix_exception", 0) + 1
                if on_exception:
                    on_exception(e, add)
                continue
            nt = oracle(one, lnt, text, lf, fixed, add, res)
            if nt:
                res["nontrivial"] += 1
                res.setdefault("sample", one)
        return res

    return run_case


def bump(res, key, n=1):
    res["stats"][key] = res["stats"].get(key, 0) + n
