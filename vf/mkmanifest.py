"""Regenerate /verif/MANIFEST.json from the property modules (run by hand: python -m vf.mkmanifest)."""

import importlib
import json
import os

from vf import core

VERIF = os.path.dirname(os.path.dirname(os.path.abspath(__file__)))

TECH = {
    "C01": ("E1", "bounded-exhaustive input enumeration on the real lexer (all strings over a 33-char alphabet up to length n x 28 dialects; all template skeletons) with token-tuple invariants"),
    "C02": ("E1", "bounded-exhaustive enumeration of token sequences / grammar derivations x single deviations on the real lexer+parser; leaves == tokens oracle"),
    "C03": ("E1", "bounded-exhaustive enumeration of inputs per dialect grammar on the real parser; tree-shape and indent-balance invariants on every tree"),
    "C04": ("E1", "bounded-exhaustive enumeration of inputs x templaters x limits (every nesting depth / node count around the limits) against parse/lint/fix; no-exception oracle"),
    "C05": ("E1", "bounded-exhaustive enumeration of derivations x every single mutation x all rules (lint+fix); no 'Unexpected exception' oracle"),
    "C06": ("E1+E2", "exhaustive differential exploration: every input x {cache, pruning} toggles; explicit-state search over all parse histories up to depth d, each in a fresh child of a pristine zygote"),
    "C07": ("E1", "bounded-exhaustive enumeration of template skeletons x contexts x every rendering variant on the real templaters; slice-tiling invariants"),
    "C08": ("E1", "bounded-exhaustive differential exploration: every template skeleton x context rendered by sqlfluff vs by Jinja itself"),
    "C09": ("E1+model", "explicit reference model (str.format / regex.sub) with exhaustive replay of every model case against the python and placeholder templaters"),
    "C10": ("E1", "bounded-exhaustive enumeration of templates with fixable literals x contexts x rule sets through the real fix path; tag-sequence-preserved oracle"),
    "C11": ("E1", "bounded-exhaustive enumeration of inputs (string level) and of encoding x line-ending x bad-byte x config combinations on real files (byte level); untouched-text oracle"),
    "C12": ("E1", "bounded-exhaustive enumeration of inputs x rule sets through the real fix path; re-lex == fixed-tree token oracle"),
    "C13": ("E1", "bounded-exhaustive enumeration of parsable inputs x rule sets; fixed text re-linted must stay free of TMP/LXR/PRS"),
    "C14": ("E1", "bounded-exhaustive enumeration of inputs x layout configurations under the layout group; code-token and comment preservation oracle"),
    "C15": ("E1", "bounded-exhaustive enumeration of case deviations x rules x policies; case-only-difference oracle"),
    "C16": ("E1", "bounded-exhaustive differential exploration: every executable generated query executed in SQLite before/after fixing on three fixed database instances"),
    "C17": ("E1", "bounded-exhaustive enumeration of inputs x rule sets; fix(fix(x)) == fix(x)"),
    "C18": ("E1+model", "explicit model of 'file must stay unchanged' over the full scenario product (error x fixable x suppression x flags), every case replayed through 6 real entry points"),
    "C19": ("E1", "exhaustive three-way differential over the scenario product: path vs stdin vs API"),
    "C20": ("E1+model", "explicit-state reference model of noqa line/range semantics; every directive placement x violation set (small scope, exhaustive) replayed against IgnoreMask and end-to-end lint"),
    "C21": ("E1+model", "set-algebra model of rule selection over all selector subsets, replayed against get_rulepack; exhaustive per-rule alone-vs-in-company differential"),
    "C22": ("E1+model", "exit-code model over the full scenario product x commands x entry points, every case replayed through the real CLI"),
    "C23": ("E1+model", "bounded-exhaustive enumeration of inputs x all rules; every reported position checked against a line/column reference model and across CLI output formats"),
    "C24": ("E3", "stateless exhaustive schedule enumeration (DFS over choice prefixes) of a virtual worker pool driving the real runner; workers are real fresh processes behind a real pickle boundary"),
    "C25": ("E1+model", "reference model of ignore-file discovery (pathspec as matcher) over exhaustively enumerated trees x carriers x patterns x spellings x cwds, every case replayed"),
    "C26": ("E4", "fault / crash-point enumeration: every operation index of the recorded write-path log x {4 errnos, die-before, die-after} in forked children + power-loss model over every log prefix"),
    "C27": ("E1+E2+model", "ordered-merge model over all 256 source subsets x locations, replayed; explicit-state search over file sequences for isolation (fresh-process children)"),
    "C28": ("E1", "bounded-exhaustive enumeration of inputs x serialisation flags x CLI formats; flattened record == tree leaves oracle"),
    "C29": ("E5+E1", "explicit-state breadth-first search over every grammar object reachable from each dialect's root (states/transitions counted) + exhaustive code-point enumeration against every lexer"),
    "C30": ("E1+model", "explicit model of disjoint patch application; all patch sets over a length-6 source (1.5M) replayed against merge/slice/build, plus patch sets harvested from real fixes"),
    "C31": ("E1+model", "line/column reference model; every string over {a,\\n,\\r} up to length n x every offset replayed against the implementation"),
    "C32": ("E2", "explicit-state search over all operation histories up to depth d (20 operations), each executed in a fresh child of a pristine zygote; read-only + fresh-process differential"),
    "C33": ("E1", "bounded-exhaustive enumeration of looped/branched templates and raw inputs x all rules; uniqueness and order oracle"),
    "C34": ("E1+model", "skip model over the full product of sizes x limits x flags x commands x process counts, every case replayed through the real CLI"),
}
NOTES = {
    "exploration": "trusts: the Python lexer/parser paths (sqlfluffrs absent), alphabets and bounds stated in evidence.coverage.rule/bound; nothing outside the enumerated bounded space is claimed",
    "model_checking": "trusts: the small reference model in vf/models (reviewable, no sqlfluff logic imported) and the stated bounds; every model case is replayed against the implementation, so model and code are bound on the whole explored space",
    "fault_enumeration": "trusts: interception of the os/shutil/tempfile names used by linted_file.py; power loss is a model over the recorded operation log, not a real disk cut",
}


def main():
    checks = []
    for i in range(1, 35):
        pid = "C%02d" % i
        try:
            m = importlib.import_module("vf.props." + pid.lower())
        except ImportError:
            continue
        eng, tech = TECH[pid]
        checks.append(
            {
                "property_id": pid,
                "quick_cmd": "./check %s quick" % pid,
                "thorough_cmd": "./check %s thorough" % pid,
                "evidence_file": "evidence/%s.json" % pid,
                "replay_cmd_template": "./check %s --replay {path}" % pid,
                "engine": eng,
                "level_claimed": {
                    "category": m.LEVEL,
                    "text": "Bounded exhaustive: " + m.RULE + core._rule_extra(pid),
                    "design_ref": "DESIGN.md §3 %s" % pid,
                },
                "level_note": NOTES[m.LEVEL] + ". Assumptions: " + "; ".join(getattr(m, "ASSUMPTIONS", [])),
                "technique": tech,
            }
        )
    claimed = {c["property_id"] for c in checks}
    na = [{"property_id": "C%02d" % i, "reason": "check not built yet"} for i in range(1, 35) if "C%02d" % i not in claimed]
    man = {
        "version": 1,
        "setup_cmd": "/venv/bin/python -m vf.setup",
        "hooks": {
            "guard": "SQLFLUFF_VERIF",
            "enable": "no source hooks: every seam is reached by patching module attributes from the harness process (the guard variable is set by the runner but read by nothing in /repo)",
            "baseline_off_cmd": "cd /repo && /venv/bin/python -m pytest -ra -q -p no:cacheprovider --timeout=900 --continue-on-collection-errors",
            "source_commits": [],
            "add_only": True,
        },
        "engines": [
            {"name": "E1 enum", "path": "vf/core.py", "serves_properties": sorted(p for p, (e, _) in TECH.items() if "E1" in e), "kind_free_text": "bounded-exhaustive input enumerator + sharded fork executor (16 workers), simplest-first, distinctness checked"},
            {"name": "E2 hist", "path": "vf/hist.py", "serves_properties": ["C06", "C27", "C32"], "kind_free_text": "explicit-state search over operation histories; every history runs in a fresh child forked from a pristine zygote"},
            {"name": "E3 sched", "path": "vf/props/c24.py", "serves_properties": ["C24"], "kind_free_text": "controlled scheduler (virtual pool) for ParallelRunner; stateless DFS over start/finish choice prefixes"},
            {"name": "E4 faults", "path": "vf/props/c26.py", "serves_properties": ["C26"], "kind_free_text": "fault / crash injector for the fix write path + power-loss model over the recorded op log"},
            {"name": "E5 graph", "path": "vf/props/c29.py", "serves_properties": ["C29"], "kind_free_text": "explicit-state BFS over dialect grammar objects"},
        ],
        "checks": checks,
        "not_applicable": na,
        "notes": "All checks: cwd=/verif, run against /repo's working tree via the editable install (runner asserts sqlfluff is imported from /repo/src). VERIF_SEED only permutes shard order. Known genuine defects of the unchanged tree are in known_findings.jsonl (see DESIGN.md §4).",
    }
    with open(os.path.join(VERIF, "MANIFEST.json"), "w") as f:
        json.dump(man, f, indent=1)
    print("wrote MANIFEST.json with", len(checks), "checks;", len(na), "not applicable")


if __name__ == "__main__":
    main()
