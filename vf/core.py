"""Shared runner: bounded-exhaustive executor, evidence, known findings, replay.

Every property module (vf/props/cNN.py) exposes

    LEVEL        'exploration' | 'model_checking' | 'fault_enumeration'
    RULE         str: how cases are enumerated and what makes one non-trivial
    ASSUMPTIONS  list[str]
    FLOOR        {'quick': int, 'thorough': int}  vacuity floor on non-trivial cases
    cases(tier)  iterable of JSON-able cases, canonical simplest-first, distinct
    setup()      optional, once per worker process (after fork)
    run_case(c)  -> dict(fails=[{clause, features, detail}], nontrivial=bool,
                         cls=str|None, stats={name:int})
    post(ctx)    optional: extra coverage keys from aggregated stats

The executor never samples: it runs run_case on every case cases() yields.
VERIF_SEED only permutes the order in which chunks are handed to workers.
"""

from __future__ import annotations

import hashlib
import importlib
import json
import os
import random
import shutil
import signal
import sys
import time
import traceback
from concurrent.futures import ProcessPoolExecutor, as_completed
from concurrent.futures.process import BrokenProcessPool
import multiprocessing as mp

VERIF = os.path.dirname(os.path.dirname(os.path.abspath(__file__)))
REPO_SRC = "/repo/src/"
NPROC = int(os.environ.get("VF_WORKERS", "16"))
CASE_TIMEOUT = int(os.environ.get("VF_CASE_TIMEOUT", "120"))


def _big(cb, *a):
    return cb(*a)


# One large frame-stack chunk per worker call: see DESIGN.md §2.1 (worker bootstrap).
_big.__code__ = _big.__code__.replace(co_stacksize=1_000_000)


def scratch_root() -> str:
    d = os.path.join(VERIF, ".scratch", os.environ.get("VF_MAIN_PID", str(os.getpid())))
    os.makedirs(d, exist_ok=True)
    return d


def ensure_env():
    """Re-exec with a fixed hash seed; pin HOME etc. into the scratch tree."""
    if os.environ.get("PYTHONHASHSEED") != "0" or os.environ.get("VF_ENV") != "1":
        env = dict(os.environ)
        env["PYTHONHASHSEED"] = "0"
        env["VF_ENV"] = "1"
        env["SQLFLUFF_VERIF"] = "1"
        env.setdefault("PYTHONDONTWRITEBYTECODE", "1")
        env["PYTHONPATH"] = VERIF + os.pathsep + env.get("PYTHONPATH", "")
        if env.get("VF_REPO_SRC"):
            # experiments only (seeded-change trials in a scratch worktree); never set by a registered command
            env["PYTHONPATH"] = env["VF_REPO_SRC"] + os.pathsep + env["PYTHONPATH"]
        env.pop("SQLFLUFF_CONFIG", None)
        os.execve(sys.executable, [sys.executable, "-m", "vf.run"] + sys.argv[1:], env)
    root = scratch_root()
    os.environ["VF_MAIN_PID"] = str(os.getpid())
    home = os.path.join(root, "home")
    os.makedirs(home, exist_ok=True)
    os.environ["HOME"] = home
    os.environ["XDG_CONFIG_HOME"] = os.path.join(home, ".config")
    os.environ["TMPDIR"] = os.path.join(root, "tmp")
    os.makedirs(os.environ["TMPDIR"], exist_ok=True)
    import tempfile

    tempfile.tempdir = None
    work = os.path.join(root, "cwd")
    os.makedirs(work, exist_ok=True)
    os.chdir(work)


def assert_repo():
    import logging

    import sqlfluff

    # rule crashes are observed as violations (C05), not read from the log
    logging.disable(logging.CRITICAL)

    f = os.path.abspath(sqlfluff.__file__)
    alt = os.environ.get("VF_REPO_SRC")
    if alt and f.startswith(os.path.abspath(alt)):
        print(f"NOTE: experiment run against {alt} (VF_REPO_SRC), not /repo")
        return
    if not f.startswith(REPO_SRC):
        print(f"BROKEN-HARNESS: sqlfluff imported from {f}, not {REPO_SRC}")
        sys.exit(2)


def case_id(case) -> str:
    return hashlib.sha1(
        json.dumps(case, sort_keys=True, ensure_ascii=True, default=str).encode()
    ).hexdigest()[:16]


def digest(obj) -> str:
    return hashlib.blake2b(repr(obj).encode("utf-8", "backslashreplace"), digest_size=8).hexdigest()


class _Timeout(BaseException):
    # BaseException: neither sqlfluff's nor a check's own `except Exception` may mistake the alarm for a finding
    pass


def _alarm(signum, frame):
    raise _Timeout()


_MOD = {}


def _get_mod(pid: str):
    m = _MOD.get(pid)
    if m is None:
        m = importlib.import_module("vf.props." + pid.lower())
        if hasattr(m, "setup"):
            m.setup()
        _MOD[pid] = m
    return m


def _case_size(case) -> int:
    try:
        return len(json.dumps(case, default=str))
    except Exception:
        return 10**9


def _run_chunk_inner(pid: str, chunk: list):
    m = _get_mod(pid)
    agg = {
        "n": 0,
        "nontrivial": 0,
        "classes": set(),
        "fails": [],
        "stats": {},
        "samples": [],
        "harness_errors": [],
    }
    signal.signal(signal.SIGALRM, _alarm)
    case_timeout = int(os.environ.get("VF_CASE_TIMEOUT") or getattr(m, "TIMEOUT", CASE_TIMEOUT))
    for case in chunk:
        signal.alarm(case_timeout)
        try:
            try:
                r = m.run_case(case)
            except _Timeout:
                # one retry with a 4x budget: a loaded machine must not turn into an alarm, a real hang still does
                signal.alarm(case_timeout * 4)
                r = m.run_case(case)
        except _Timeout:
            agg["n"] += 1
            agg["harness_errors"].append({"case": case, "error": "timeout (twice; second budget %ds)" % (case_timeout * 4)})
            continue
        except Exception:
            agg["harness_errors"].append({"case": case, "error": traceback.format_exc()[-1500:]})
            continue
        finally:
            signal.alarm(0)
        agg["n"] += int(r.get("n", 1))
        if r.get("nontrivial"):
            agg["nontrivial"] += int(r["nontrivial"])
            if len(agg["samples"]) < 1:
                agg["samples"].append(r.get("sample", case))
        c = r.get("cls")
        if c is not None:
            if isinstance(c, (list, set, tuple)):
                agg["classes"].update(c)
            else:
                agg["classes"].add(c)
        for k, v in (r.get("stats") or {}).items():
            agg["stats"][k] = agg["stats"].get(k, 0) + v
        for f in r.get("fails") or []:
            f = dict(f)
            f.setdefault("case", case)
            agg["fails"].append(f)
    # exact totals per (clause, features) signature, whatever is kept below (input-kind findings excluded later)
    sig = {}
    for f in agg["fails"]:
        k = f["clause"] + "|" + json.dumps(f.get("features", {}), sort_keys=True)
        sig[k] = sig.get(k, 0) + 1
    agg["sig_counts"] = sig
    # keep at most a bounded number of fails per (clause, features) per chunk, smallest first
    if len(agg["fails"]) > 40:
        by = {}
        for f in agg["fails"]:
            k = (f["clause"], json.dumps(f.get("features", {}), sort_keys=True))
            by.setdefault(k, []).append(f)
        kept = []
        counts = {}
        for k, fs in by.items():
            fs.sort(key=lambda f: _case_size(f["case"]))
            kept += fs[:5]
            counts[k[0] + "|" + k[1]] = len(fs)
        agg["fail_counts"] = counts
        agg["fails"] = kept
    return agg


def _run_chunk(pid, chunk):
    return _big(_run_chunk_inner, pid, chunk)


# ---------------------------------------------------------------- findings


def load_findings(pid: str):
    path = os.path.join(VERIF, "known_findings.jsonl")
    out = []
    if os.path.exists(path):
        for line in open(path):
            line = line.strip()
            if not line or line.startswith("#") or line.startswith("fixed:"):
                continue
            e = json.loads(line)
            if e.get("property") == pid and e.get("status") == "open":
                out.append(e)
    return out


def match_finding(entry, fail) -> bool:
    m = entry["match"]
    if m.get("kind") == "input":
        return case_id(fail["case"]) == m.get("case_id") and (
            "clause" not in m or m["clause"] == fail["clause"]
        )
    if m.get("clause") != fail["clause"]:
        return False
    feats = fail.get("features") or {}
    for k, v in (m.get("features") or {}).items():
        if isinstance(v, list):
            if feats.get(k) not in v:
                return False
        elif feats.get(k) != v:
            return False
    return True


# ---------------------------------------------------------------- evidence


def write_evidence(pid, tier, seed, level, coverage, assumptions, wall, violations):
    evdir = os.path.join(VERIF, "evidence")
    if os.environ.get("VF_REPO_SRC"):
        # experiment runs must never overwrite the evidence of the real tree
        evdir = os.environ.get("VF_EVIDENCE_DIR") or os.path.join("/tmp", "vf-experiment-evidence")
    os.makedirs(evdir, exist_ok=True)
    ev = {
        "property_id": pid,
        "tier": tier,
        "seed": seed,
        "level": level,
        "coverage": coverage,
        "assumptions": assumptions,
        "wall_s": round(wall, 2),
        "violations": violations,
    }
    path = os.path.join(evdir, pid + ".json")
    tmp = path + ".tmp"
    with open(tmp, "w") as f:
        json.dump(ev, f, indent=1, ensure_ascii=True, default=str)
    os.replace(tmp, path)
    return path


def write_replay(pid, fail):
    d = os.path.join(VERIF, "replays", pid)
    os.makedirs(d, exist_ok=True)
    p = os.path.join(d, case_id(fail["case"]) + ".json")
    with open(p, "w") as f:
        json.dump(
            {
                "property": pid,
                "case": fail["case"],
                "clause": fail["clause"],
                "features": fail.get("features", {}),
                "detail": fail.get("detail"),
            },
            f,
            indent=1,
            ensure_ascii=True,
            default=str,
        )
    return p


# ---------------------------------------------------------------- main driver


def _rule_extra(pid):
    from vf.rule_extra import EXTRA

    return (" ALSO (added after the seeded-change waves): " + EXTRA[pid]) if pid in EXTRA else ""


def chunked(it, n):
    buf = []
    for x in it:
        buf.append(x)
        if len(buf) >= n:
            yield buf
            buf = []
    if buf:
        yield buf


def run_property(pid: str, tier: str, seed: int) -> int:
    t0 = time.time()
    assert_repo()
    m = importlib.import_module("vf.props." + pid.lower())
    if hasattr(m, "prepare"):
        m.prepare(tier)
    cases = list(m.cases(tier))
    ids = set()
    # distinctness is part of the accounting: duplicates are a harness bug
    for c in cases:
        ids.add(case_id(c))
    if len(ids) != len(cases):
        print(f"BROKEN-HARNESS: {len(cases) - len(ids)} duplicate cases enumerated")
        return 2
    csize = getattr(m, "CHUNK", None) or max(1, min(64, len(cases) // (NPROC * 8) or 1))
    chunks = list(chunked(cases, csize))
    rnd = random.Random(seed)
    order = list(range(len(chunks)))
    if seed:
        rnd.shuffle(order)
    agg = {
        "n": 0,
        "nontrivial": 0,
        "classes": set(),
        "fails": [],
        "stats": {},
        "samples": [],
        "harness_errors": [],
        "fail_counts": {},
        "sig_counts": {},
    }
    serial =getattr(m, "SERIAL", False) or os.environ.get("VF_SERIAL") == "1"

    def absorb(r):
        agg["n"] += r["n"]
        agg["nontrivial"] += r["nontrivial"]
        agg["classes"] |= r["classes"]
        agg["fails"] += r["fails"]
        for k, v in r["stats"].items():
            agg["stats"][k] = agg["stats"].get(k, 0) + v
        for k, v in r.get("fail_counts", {}).items():
            agg["fail_counts"][k] = agg["fail_counts"].get(k, 0) + v
        for k, v in r.get("sig_counts", {}).items():
            agg["sig_counts"][k] = agg["sig_counts"].get(k, 0) + v
        if len(agg["samples"]) < 3:
            agg["samples"] += r["samples"][:1]
        agg["harness_errors"] += r["harness_errors"]

    if serial:
        for i in order:
            absorb(_run_chunk(pid, chunks[i]))
    else:
        nw = min(NPROC, getattr(m, "WORKERS", NPROC))
        try:
            with ProcessPoolExecutor(nw, mp_context=mp.get_context("fork")) as ex:
                futs = [ex.submit(_run_chunk, pid, chunks[i]) for i in order]
                for fu in as_completed(futs):
                    absorb(fu.result())
        except BrokenProcessPool:
            print(f"BROKEN-HARNESS: a worker process died while checking {pid}")
            return 2
    wall = time.time() - t0
    if agg["harness_errors"]:
        e = agg["harness_errors"][0]
        print(f"BROKEN-HARNESS: {len(agg['harness_errors'])} cases failed in the harness; first:")
        print(json.dumps(e["case"], default=str)[:500])
        print(e["error"])
        return 2
    # triage against known findings
    findings = load_findings(pid)
    hits = {}
    unmatched = []
    for f in agg["fails"]:
        for i, e in enumerate(findings):
            if match_finding(e, f):
                hits[i] = hits.get(i, 0) + 1
                break
        else:
            unmatched.append(f)
    for i, n in sorted(hits.items()):
        print(f"KNOWN-FINDING: property={pid} {findings[i]['what']} [{n} failing cases reported this run]")
    # A recorded finding is identified by a signature; the enumeration is deterministic, so the number of
    # failing cases carrying that signature is too. MORE matches than recorded on the unchanged tree means
    # new failures are hiding behind the signature: they are reported, not absorbed.
    totals = {}
    for key, cnt in agg["sig_counts"].items():
        cl, _, ft = key.partition("|")
        probe = {"clause": cl, "features": json.loads(ft)}
        for i, e in enumerate(findings):
            if e["match"].get("kind") == "callsite" and match_finding(e, probe):
                totals[i] = totals.get(i, 0) + cnt
                break
    over = []
    for i, n in sorted(totals.items()):
        mx = (findings[i].get("max_hits") or {}).get(tier)
        if mx is not None and n > mx:
            over.append((i, n, mx))
    print("HITS " + json.dumps({"property": pid, "tier": tier, "hits": {json.dumps(findings[i]["match"], sort_keys=True): n for i, n in totals.items()}}))
    coverage = {
        "evaluations": agg["n"],
        "distinct_nontrivial": agg["nontrivial"],
        "rule": m.RULE + _rule_extra(pid),
        "samples": agg["samples"][:3] or cases[:1],
        "exhaustive": True,
        "observation_classes": len(agg["classes"]),
        "counters": dict(sorted(agg["stats"].items())),
        "known_finding_hits": {findings[i]["what"][:80]: n for i, n in hits.items()},
        "bound": getattr(m, "BOUND", {}).get(tier, ""),
    }
    if hasattr(m, "post"):
        coverage.update(m.post(agg, tier) or {})
    floor = getattr(m, "FLOOR", {}).get(tier, 2)
    rc = 0
    if os.environ.get("VF_DUMP_FAILS"):
        with open(os.environ["VF_DUMP_FAILS"], "w") as fh:
            for f in agg["fails"]:
                fh.write(json.dumps(f, default=str) + "\n")
    if unmatched:
        unmatched.sort(key=lambda f: (_case_size(f["case"]), f["clause"]))
        by_sig = {}
        for f in unmatched:
            by_sig.setdefault((f["clause"], json.dumps(f.get("features", {}), sort_keys=True)), []).append(f)
        for (cl, ft), fs in sorted(by_sig.items(), key=lambda kv: _case_size(kv[1][0]["case"])):
            p = write_replay(pid, fs[0])
            print(f"VIOLATION property={pid} replay={p}")
            print(f"   clause={cl} features={ft} cases={len(fs)} detail={str(fs[0].get('detail'))[:400]}")
            print(f"   case={json.dumps(fs[0]['case'], default=str)[:400]}")
        rc = 1
    if over:
        for i, n, mx in over:
            ex = next(f for f in agg["fails"] if match_finding(findings[i], f))
            p = write_replay(pid, ex)
            print(f"VIOLATION property={pid} replay={p}")
            print(f"   {n} failing cases carry the signature of a recorded finding that matched {mx} on the unchanged tree: new failures share it ({findings[i]['what'][:160]})")
        rc = 1
    if rc == 0 and agg["nontrivial"] < floor:
        print(f"VACUOUS property={pid}: {agg['nontrivial']} non-trivial cases < floor {floor}")
        rc = 2
    write_evidence(pid, tier, seed, m.LEVEL, coverage, getattr(m, "ASSUMPTIONS", []), wall, len(unmatched) + len(over))
    print(
        f"{pid} tier={tier} seed={seed} evaluations={agg['n']} nontrivial={agg['nontrivial']} "
        f"classes={len(agg['classes'])} known_hits={sum(hits.values())} violations={len(unmatched)} "
        f"wall={wall:.1f}s rc={rc}"
    )
    if agg["stats"]:
        print("   counters:", json.dumps(dict(sorted(agg["stats"].items()))))
    return rc


def replay(pid: str, path: str) -> int:
    assert_repo()
    rec = json.load(open(path))
    m = _get_mod(pid)
    r = _big(m.run_case, rec["case"])
    fails = r.get("fails") or []
    print(json.dumps({"case": rec["case"], "fails": fails}, indent=1, default=str)[:6000])
    if fails:
        print(f"VIOLATION property={pid} replay={path}")
        return 1
    print("replay: property holds on this case")
    return 0


def cleanup():
    shutil.rmtree(os.path.join(VERIF, ".scratch", str(os.getpid())), ignore_errors=True)
