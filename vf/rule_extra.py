"""Additions to the enumeration rules made after the first seeded-change waves (DESIGN.md §7.2b).
Kept in one place; appended to coverage.rule in every evidence file and to MANIFEST level texts."""

SPAN = (
    "token-spanning templates: every sequence of <= 4 (3 in fix-level checks) items from {a, b_, space, ',', {{ v }}->1, {{ s }}->' ', "
    "{{ e }}->'', {# c #}} without separating whitespace (one token spans 2-4 template slices, also from source offset 0)"
)
NESTED = "nested (depth 2) templates: an if/elif/for inside the body of an outer if/for, optionally followed by more conditional code (4 704 x 6 contexts)"
LOOP = "loop-straddling templates: for-loop bodies whose last fragment starts an expression continued by the first fragment of the next iteration (600)"
FIXT = "every dialect fixture <= 250 B (thorough 1000 B) fixed in its own dialect"
GLUE = "operator / sign / comment-adjacent input list (fixfam.GLUE, 60 statements)"
GAPS = "every dialect fixture <= 80 B (thorough 150 B) with ' -- c<newline>' inserted after EVERY token in turn, fixed in its own dialect (8 543 inputs)"
LSWEEP = (
    "layout option sweep: every indentation option and every spacing / line_position option of 10 layout types moved away from its default ONE "
    "at a time, each to every other documented value (39 configurations) x (G(1) + operator list) x layout"
)
ROPT ="every assignment of <= 2 enumerated options of every rule x that rule's YAML strings + operator list, that rule alone"
LT05P = (
    "LT05 product (every ordered triple of 5 statements with inline / block / multi-line block trailing comments and long identifiers x "
    "ignore_comment_lines x ignore_comment_clauses x max_line_length {30, 50})"
)
LPROD ="layout option product (max_line_length {6, 10, 20, 45} x implicit_indents {forbid, allow, require} x G(1) + operator list with short / long identifiers)"

EXTRA = {
    "C01": SPAN + "; " + NESTED + "; the public Lexer on un-normalised text (every string over Sigma_c^<=3 containing a lone CR x 28 dialects); every alphabet "
    "character arriving as template OUTPUT (context / bind-parameter value) x 4 shapes x {jinja, python, placeholder}.",
    "C02": SPAN + "; " + LOOP + "; a missing tree is accepted only for unbalanced brackets and depth/node limits.",
    "C03": SPAN + "; " + LOOP + "; every dialect fixture up to 4 000 B (thorough: every fixture, 2 249) in its own dialect.",
    "C04": "Jinja " + SPAN + " (parse, lint, fix); EVERY max_parse_depth in 1..140 x 3 small files x {parse, lint, fix}; large_file_skip_char_limit in {5, 16} x 4 "
    "templaters x 3 inputs x {parse, lint, fix, API lint/fix/parse}; files without any code token (comment-only / blank / whitespace-only) around max_parse_nodes.",
    "C05": "every assignment of <= 2 enumerated options of every rule (36 rules with options) x that rule's YAML strings and the " + GLUE + ", that rule alone, lint + fix.",
    "C06": "part C: statement pairs forced to collide in one parse -- per dialect, fixture statements grouped by first keyword, representative A of each two-keyword "
    "kind x every statement B of the group (55 k files 'A; B;'), B's subtree shape must equal its shape when parsed alone; part D: simple() first-token hints of "
    "EVERY reachable grammar node of every dialect evaluated in forward and in reverse order in one ParseContext must be identical (127 k nodes); part E: ONE "
    "sqlfluff.core.Parser object used for every ordered pair (thorough: triple) of 18 colliding inputs (same first token / positions / token count; files needing "
    "exactly, less than and more than max_parse_depth) x {default config, max_parse_depth = smallest value that parses 'SELECT ((1))'}, each result vs a fresh Parser.",
    "C07": SPAN + "; " + NESTED + "; 216 templates in which a branch whose FORCED rendering raises (so its variant is skipped) is nested in an if without "
    "else and followed by an if / elif / else whose branches have tags of different lengths.",
    "C08": SPAN + "; " + NESTED + ".",
    "C10": SPAN + "; a template expression / bind parameter in every kind of place (inline comment, block comment, string, code, end of an over-long line: 11 "
    "shapes) x {jinja, python, 9 placeholder styles} x {default, max_line_length 30}; expressions whose RENDERED text carries the violation (4 values) in "
    "the taken branch, in unreached branches and in loop bodies (24 templates x 6 contexts x {all, layout}).",
    "C11": SPAN + "; 12 line-break-like characters (VT, FF, FS, GS, RS, NEL, LS, PS, CR, CRLF, NBSP, BOM) inside a string literal, a comment and between tokens; "
    "the reference text is the INPUT with only CRLF/CR -> LF.",
    "C12": FIXT + "; " + GLUE + "; " + GAPS + "; " + LPROD + " x all; " + ROPT + "; " + LSWEEP + ".",
    "C13": FIXT + "; " + GLUE + "; " + GAPS + "; " + LPROD + " x all; " + ROPT + "; " + LSWEEP + "; Jinja: every span template of <= 3 items inside an identifier / quoted literal x 4 statement "
    "shapes, all rules.",
    "C14": FIXT + " under the layout group; " + GLUE + "; " + GAPS + "; " + LPROD + " x layout; " + LT05P + " x layout; " + LSWEEP + ".",
    "C15": "statements with quoted / schema-qualified type names and comments inside a data type.",
    "C16": GLUE + ".",
    "C17": FIXT + "; " + GLUE + "; layout option product: max_line_length {6, 10, 20, 45} x implicit_indents {forbid, allow, require} x (G(1) + operator list, "
    "each also with long identifiers everywhere and with long identifiers only after FROM) x {layout, all}; " + ROPT + "; " + LSWEEP + "; " + LT05P + " x {LT05, all}.",
    "C19": "nested-configuration scenarios (file in sub/ or sub/deep/ with its own .sqlfluff: rule option, exclude_rules, templater context) and templated files, "
    "stdin given --stdin-filename sub/f.sql; every inline directive also in every accepted spelling ('-- sqlfluff:' / '--sqlfluff:') x placement (first / last "
    "line) x line ending (LF / CRLF); non-ASCII text after pure-ASCII prefixes of 0 / 1.1 / 5 / 70 KiB.",
    "C20": "16 directive kinds incl. lists mixing an expanding reference with a special code (noqa: LT01,PRS / PRS,CP01 / disable=LT01,PRS); block-comment syntax "
    "for all single-directive placements.",
    "C21": "selectors with character-class globs (CP0[12], capitalisation.[k]eywords, LT0[!1]).",
    "C22": "two files under one path: all ordered pairs of 18 single-file scenarios, expected exit = worst per-file status (lint and fix).",
    "C23": SPAN + ".",
    "C25": "a sibling directory 'ab' whose name starts with 'a'; BOTH directory listing orders (os.walk wrapped: sub-directories ascending and descending).",
    "C26": "interrupt-at-i: KeyboardInterrupt and SystemExit raised at every operation index (a failed write that is not an OSError).",
    "C28": SPAN + "; " + LOOP + ".",
    "C30": SPAN + " (patch sets of real fixes); insertions come with two different texts (X, Y) so one variant can carry two edits of one zero-length range; "
    "depth-changing loops (48 templates whose loop body opens / closes a bracket or CASE, fixed under LT02 alone and under all rules, also with "
    "render_variant_limit 1 and 2).",
    "C34": "the same limits set by a NESTED .sqlfluff (big.sql in m/, the root config says the opposite); 3-line CRLF files whose size on disk is L-1, L, L+1 bytes.",
    "C33": SPAN + ".",
}
